package main

// C15: resource repair restores consistent usage.

import (
	"fmt"
	"go/ast"
	"go/token"
	"go/types"
	"sort"
	"strings"
)

func init() { register("C15", checkC15) }

// usage field pairs: field of the workload sum <-> field of the node usage (same table as C08's usage-relevant fields)
var c15Pairs = map[string]string{"CPURequest": "CPU", "CPUMap": "CPUMap", "MemoryRequest": "Memory", "NUMAMemory": "NUMAMemory"}

func checkC15(p *Prog, r *Result, tier string) {
	r.Technique = "field-pair coverage rules over the compare and the rewrite of the cpumem plugin (type-resolved AST: which field of the workload sum meets which field of the node usage), dominance rules for the persisting write, routing rule in the resource manager, lock-scope rule in calcium"
	r.Explanation = "SUM the reference usage is the Add-fold of every workload resource handed in (parse, then Add, unconditionally); CMP each usage-relevant pair (sum.CPURequest~usage.CPU, sum.CPUMap[k]~usage.CPUMap[k], sum.MemoryRequest~usage.Memory, sum.NUMAMemory[k]~usage.NUMAMemory[k]) is compared with != in a condition that appends to the diff list; " +
		"FIX when there are diffs the usage is replaced by a value whose four usage fields are exactly the paired fields of that same sum, and the replaced record is persisted before the response is built; " +
		"ROUTE with fix=true the manager calls every plugin's FixNodeResource (otherwise GetNodeResourceInfo) with that plugin's share of each workload's resources; LOCK calcium lists the node's workloads and calls the manager inside the pod-lock callback of that node, for the API and the recovery handler alike."
	r.NotCovered = "the arithmetic of the sum (Add is decided under C08); usage entries for cores or NUMA nodes that are not in the node's capacity are not compared (the loops range over capacity keys); rounding of CPU sums"
	r.Assumptions = []string{"usage-relevant field pairs as in C08"}
	r.min("SUM", 1)
	r.min("CMP", 4)
	r.min("FIX", 5)
	r.min("ROUTE", 2)
	r.min("LOCK", 2)

	const pk = "resource/plugins/cpumem"
	G := p.Fn(pk + ".Plugin.getNodeResourceInfo")
	F := p.Fn(pk + ".Plugin.FixNodeResource")
	M := p.Fn("resource/cobalt.Manager.GetNodeResourceInfo")
	D := p.Fn("cluster/calcium.(*Calcium).doGetNodeResource")
	for n, f := range map[string]*FuncNode{"getNodeResourceInfo": G, "FixNodeResource": F, "cobalt GetNodeResourceInfo": M, "doGetNodeResource": D} {
		if f == nil {
			r.undecided("anchor", n, "", "not found")
		}
	}
	if G == nil || F == nil || M == nil || D == nil {
		return
	}

	// ---- SUM: acc.Add(parsed) for every element of the workloads parameter
	var acc types.Object
	{
		list := G.paramObj(2)
		why := "no loop folding the workload resources with Add"
		var at ast.Node = G.Decl
		G.inspectBody(func(n ast.Node) bool {
			rs, ok := n.(*ast.RangeStmt)
			if !ok || G.objOf(rs.X) != list || rs.Value == nil {
				return true
			}
			at = rs
			elem := G.objOf(rs.Value)
			var parsed types.Object
			added := false
			why = ""
			for _, st := range rs.Body.List {
				switch s := st.(type) {
				case *ast.AssignStmt:
					parsed = G.objOf(s.Lhs[0])
				case *ast.IfStmt:
					// only `if err := parsed.Parse(elem); err != nil { return }` is allowed
					okParse := false
					if as, ok := s.Init.(*ast.AssignStmt); ok && len(as.Rhs) == 1 {
						if c, ok := unparen(as.Rhs[0]).(*ast.CallExpr); ok {
							if sel, ok := unparen(c.Fun).(*ast.SelectorExpr); ok && sel.Sel.Name == "Parse" && G.objOf(sel.X) == parsed && len(c.Args) == 1 && G.objOf(c.Args[0]) == elem {
								okParse = true
							}
						}
					}
					if !okParse {
						why = "a workload can be skipped under `" + exprStr(s.Cond) + "`: the reference usage is not the sum of all recorded workloads"
					}
				case *ast.ExprStmt:
					if c, ok := unparen(s.X).(*ast.CallExpr); ok {
						if sel, ok := unparen(c.Fun).(*ast.SelectorExpr); ok && sel.Sel.Name == "Add" && len(c.Args) == 1 && G.objOf(c.Args[0]) == parsed && parsed != nil {
							acc = G.objOf(sel.X)
							added = true
						}
					}
				default:
					why = fmt.Sprintf("unexpected %T in the summing loop", st)
				}
			}
			if why == "" && !added {
				why = "the parsed workload resource is not added to the sum"
			}
			return true
		})
		r.check2(why, "SUM", G.Name+" / the reference usage is the sum over every workload handed in", p.pos(at), "for each: Parse, then sum.Add(parsed)")
	}
	if acc == nil {
		return
	}

	// ---- CMP: comparisons sum.X(…) != info.Usage.Y(…) feeding diffs
	info := func() types.Object {
		var o types.Object
		G.inspectBody(func(n ast.Node) bool {
			if as, ok := n.(*ast.AssignStmt); ok && len(as.Rhs) == 1 && o == nil {
				if c, ok := unparen(as.Rhs[0]).(*ast.CallExpr); ok && G.Callee(c) != nil && G.Callee(c).Name() == "doGetNodeResourceInfo" {
					o = G.objOf(as.Lhs[0])
				}
			}
			return true
		})
		return o
	}()
	// classify an expression: ("sum", field) / ("usage", field) possibly through one single-definition local and Round()/index
	var classify func(e ast.Expr, depth int) (string, string)
	classify = func(e ast.Expr, depth int) (string, string) {
		e = unparen(e)
		switch x := e.(type) {
		case *ast.IndexExpr:
			return classify(x.X, depth)
		case *ast.CallExpr:
			if len(x.Args) == 1 {
				return classify(x.Args[0], depth)
			}
		case *ast.Ident:
			if depth < 2 {
				if def := G.singleDef(G.objOf(x)); def != nil {
					return classify(def, depth+1)
				}
			}
		case *ast.SelectorExpr:
			if G.objOf(x.X) == acc {
				return "sum", x.Sel.Name
			}
			if inner, ok := unparen(x.X).(*ast.SelectorExpr); ok && inner.Sel.Name == "Usage" && G.objOf(inner.X) == info {
				return "usage", x.Sel.Name
			}
		}
		return "", ""
	}
	seen := map[string]bool{}
	G.inspectBody(func(n ast.Node) bool {
		is, ok := n.(*ast.IfStmt)
		if !ok {
			return true
		}
		be, ok := unparen(is.Cond).(*ast.BinaryExpr)
		if !ok || be.Op != token.NEQ {
			return true
		}
		k1, f1 := classify(be.X, 0)
		k2, f2 := classify(be.Y, 0)
		if k1 == "usage" {
			k1, f1, k2, f2 = k2, f2, k1, f1
		}
		if k1 != "sum" || k2 != "usage" {
			return true
		}
		appends := false
		for _, st := range is.Body.List {
			if as, ok := st.(*ast.AssignStmt); ok && len(as.Rhs) == 1 {
				if c, ok := unparen(as.Rhs[0]).(*ast.CallExpr); ok {
					if id, ok := c.Fun.(*ast.Ident); ok && id.Name == "append" {
						appends = true
					}
				}
			}
		}
		key := fmt.Sprintf("%s / sum.%s is compared with usage.%s", G.Name, f1, f2)
		seen[f1] = true
		switch {
		case c15Pairs[f1] != f2:
			r.bad("CMP", key, p.pos(is), fmt.Sprintf("the workload sum's %s is compared with the usage's %s, its counterpart is %s: a drift in %s goes unnoticed or a spurious difference is reported", f1, f2, c15Pairs[f1], c15Pairs[f1]))
		case !appends:
			r.bad("CMP", key, p.pos(is), "the difference is detected but not recorded in the diff list: no repair is triggered for it")
		default:
			r.ok("CMP", key, p.pos(is), "!= feeds the diff list")
		}
		return true
	})
	var missing []string
	for f := range c15Pairs {
		if !seen[f] {
			missing = append(missing, f)
		}
	}
	sort.Strings(missing)
	if len(missing) > 0 {
		r.bad("CMP", G.Name+" / every usage-relevant field is compared", p.pos(G.Decl), "no comparison for "+strings.Join(missing, ", ")+": a drift confined to that field is never reported and never repaired")
	}

	// ---- FIX
	{
		// results of getNodeResourceInfo in F: info, sum, diffs
		var fInfo, fSum, fDiffs types.Object
		F.inspectBody(func(n ast.Node) bool {
			if as, ok := n.(*ast.AssignStmt); ok && len(as.Rhs) == 1 && len(as.Lhs) == 4 {
				if c, ok := unparen(as.Rhs[0]).(*ast.CallExpr); ok && F.Callee(c) == G.Obj {
					fInfo, fSum, fDiffs = F.objOf(as.Lhs[0]), F.objOf(as.Lhs[1]), F.objOf(as.Lhs[2])
				}
			}
			return true
		})
		if fInfo == nil || fSum == nil || fDiffs == nil {
			r.undecided("FIX", F.Name+" / uses getNodeResourceInfo", p.pos(F.Decl), "the (info, sum, diffs) results of getNodeResourceInfo are not all bound")
		} else {
			var guard *ast.IfStmt
			var rewrite *ast.AssignStmt
			F.inspectBody(func(n ast.Node) bool {
				is, ok := n.(*ast.IfStmt)
				if !ok {
					return true
				}
				be, ok := unparen(is.Cond).(*ast.BinaryExpr)
				if !ok {
					return true
				}
				c, ok := unparen(be.X).(*ast.CallExpr)
				if ok && len(c.Args) == 1 && F.objOf(c.Args[0]) == fDiffs {
					if v, isC := F.constInt(be.Y); isC && v == 0 && (be.Op == token.NEQ || be.Op == token.GTR) {
						guard = is
					}
				}
				return true
			})
			if guard == nil {
				r.bad("FIX", F.Name+" / repair runs when differences were found", p.pos(F.Decl), "no `if len(diffs) != 0` guarding the rewrite")
			} else {
				r.ok("FIX", F.Name+" / repair runs when differences were found", p.pos(guard), "if len(diffs) != 0")
				for _, st := range guard.Body.List {
					if as, ok := st.(*ast.AssignStmt); ok && len(as.Lhs) == 1 {
						if sel, ok := unparen(as.Lhs[0]).(*ast.SelectorExpr); ok && sel.Sel.Name == "Usage" && F.objOf(sel.X) == fInfo {
							rewrite = as
						}
					}
				}
			}
			got := map[string]string{}
			if rewrite != nil {
				e := unparen(rewrite.Rhs[0])
				if u, ok := e.(*ast.UnaryExpr); ok {
					e = unparen(u.X)
				}
				if lit, ok := e.(*ast.CompositeLit); ok {
					for _, el := range lit.Elts {
						if kv, ok := el.(*ast.KeyValueExpr); ok {
							if sel, ok := unparen(kv.Value).(*ast.SelectorExpr); ok && F.objOf(sel.X) == fSum {
								got[exprStr(kv.Key)] = sel.Sel.Name
							} else {
								got[exprStr(kv.Key)] = "?" + exprStr(kv.Value)
							}
						}
					}
				}
			}
			var fields []string
			for f := range c15Pairs {
				fields = append(fields, f)
			}
			sort.Strings(fields)
			for _, f := range fields {
				u := c15Pairs[f]
				key := fmt.Sprintf("%s / repaired usage.%s is the workload sum's %s", F.Name, u, f)
				if rewrite == nil {
					r.bad("FIX", key, p.pos(F.Decl), "no rewrite of info.Usage under the guard")
				} else {
					r.check(got[u] == f, "FIX", key, p.pos(rewrite), "Usage."+u+" = sum."+f, fmt.Sprintf("the repaired usage takes %s from %q, not from the workload sum's %s: after the repair the check still (or newly) reports a difference for it", u, got[u], f))
				}
			}
			// persisted: doSetNodeResourceInfo(ctx, nodename, info) after the rewrite, inside the guard
			persisted := false
			if guard != nil && rewrite != nil {
				for _, c := range F.calls(func(f *types.Func) bool { return f.Name() == "doSetNodeResourceInfo" }) {
					if guard.Body.Pos() <= c.Pos() && c.End() <= guard.Body.End() && c.Pos() > rewrite.End() && len(c.Args) == 3 && F.objOf(c.Args[2]) == fInfo && F.objOf(c.Args[1]) == F.paramObj(1) {
						persisted = true
					}
				}
			}
			r.check(persisted, "FIX", F.Name+" / the repaired record is persisted for this node", p.pos(F.Decl), "doSetNodeResourceInfo(ctx, nodename, info) after the rewrite", "the repaired usage is not written back (or written for another node / before the rewrite): the next check reports the same differences")
		}
	}

	// ---- ROUTE
	{
		fixP := M.paramObj(3)
		routed, share := false, false
		ast.Inspect(M.Body, func(n ast.Node) bool {
			is, ok := n.(*ast.IfStmt)
			if !ok {
				return true
			}
			enc := p.enclosing(M.Pkg, is.Pos())
			if enc.objOf(is.Cond) != fixP || is.Else == nil {
				return true
			}
			thenFix, elseGet := false, false
			ast.Inspect(is.Body, func(x ast.Node) bool {
				if c, ok := x.(*ast.CallExpr); ok && enc.Callee(c) != nil && objName(enc.Callee(c)) == "resource/plugins.Plugin.FixNodeResource" {
					thenFix = true
				}
				return true
			})
			ast.Inspect(is.Else, func(x ast.Node) bool {
				if c, ok := x.(*ast.CallExpr); ok && enc.Callee(c) != nil && objName(enc.Callee(c)) == "resource/plugins.Plugin.GetNodeResourceInfo" {
					elseGet = true
				}
				return true
			})
			routed = thenFix && elseGet
			return true
		})
		// wrk.Resources[plugin.Name()] appended for every workload
		ast.Inspect(M.Body, func(n ast.Node) bool {
			rs, ok := n.(*ast.RangeStmt)
			if !ok || rs.Value == nil {
				return true
			}
			enc := p.enclosing(M.Pkg, rs.Body.Pos())
			if enc.objOf(rs.X) != M.paramObj(2) {
				return true
			}
			if len(rs.Body.List) == 2 {
				if as, ok := rs.Body.List[0].(*ast.AssignStmt); ok && len(as.Rhs) == 1 {
					if ix, ok := unparen(as.Rhs[0]).(*ast.IndexExpr); ok {
						if sel, ok := unparen(ix.X).(*ast.SelectorExpr); ok && sel.Sel.Name == "Resources" && enc.objOf(sel.X) == enc.objOf(rs.Value) {
							if c, ok := unparen(ix.Index).(*ast.CallExpr); ok {
								if s2, ok := unparen(c.Fun).(*ast.SelectorExpr); ok && s2.Sel.Name == "Name" {
									share = true
								}
							}
						}
					}
				}
			}
			return true
		})
		r.check(routed, "ROUTE", M.Name+" / fix=true reaches the plugins' FixNodeResource, fix=false only reads", p.pos(M.Decl), "if fix { FixNodeResource } else { GetNodeResourceInfo }", "the fix flag does not select FixNodeResource/GetNodeResourceInfo as stated: a repair request does not repair, or a plain check rewrites usage")
		r.check(share, "ROUTE", M.Name+" / each plugin gets its own share of every workload's resources", p.pos(M.Decl), "wrks = append(wrks, wrk.Resources[plugin.Name()]) for every workload", "the per-plugin workload list is not built from every workload's resources of that plugin")
	}

	// ---- LOCK
	{
		var cb *FuncNode
		lockedNode := false
		for _, c := range D.calls(func(f *types.Func) bool { return f.Name() == "withNodePodLocked" }) {
			if len(c.Args) == 3 && D.objOf(c.Args[1]) == D.paramObj(1) {
				lockedNode = true
			}
			if lit, ok := unparen(c.Args[len(c.Args)-1]).(*ast.FuncLit); ok {
				cb = p.ByLit[lit]
			}
		}
		inCb := func(name string) *ast.CallExpr {
			if cb == nil {
				return nil
			}
			for _, c := range cb.calls(func(f *types.Func) bool { return objName(f) == name }) {
				return c
			}
			return nil
		}
		lw, gi := inCb("store.Store.ListNodeWorkloads"), inCb("resource.Manager.GetNodeResourceInfo")
		outside := len(D.calls(func(f *types.Func) bool {
			return objName(f) == "resource.Manager.GetNodeResourceInfo" || objName(f) == "store.Store.ListNodeWorkloads"
		}))
		why := ""
		switch {
		case cb == nil || !lockedNode:
			why = "the repair does not run inside withNodePodLocked of the requested node"
		case lw == nil || gi == nil || outside > 0:
			why = "the workload listing or the manager call happens outside the pod-lock callback: a concurrent allocation between listing and rewriting is lost by the repair"
		case !cb.dominates(cb.find(lw), cb.find(gi)):
			why = "the manager is not called with workloads listed under the same lock"
		default:
			node := cb.paramObj(1)
			nameOf := func(e ast.Expr) bool {
				sel, ok := unparen(e).(*ast.SelectorExpr)
				return ok && cb.objOf(sel.X) == node && sel.Sel.Name == "Name"
			}
			if !nameOf(lw.Args[1]) || !nameOf(gi.Args[1]) {
				why = "workloads are listed, or usage is repaired, for a node other than the locked one"
			} else if o := cb.objOf(gi.Args[2]); o == nil || o != func() types.Object {
				var w types.Object
				cb.inspectBody(func(n ast.Node) bool {
					if as, ok := n.(*ast.AssignStmt); ok && len(as.Rhs) == 1 && unparen(as.Rhs[0]) == ast.Expr(lw) {
						w = cb.objOf(as.Lhs[0])
					}
					return true
				})
				return w
			}() {
				why = "the manager is not given the workloads just listed"
			} else if cb.objOf(gi.Args[3]) != D.paramObj(3) {
				why = "the fix flag passed to the manager is not the caller's"
			}
		}
		r.check2(why, "LOCK", D.Name+" / workloads are listed and usage is repaired under the node's pod lock", p.pos(D.Decl), "withNodePodLocked(nodename){ ListNodeWorkloads(node.Name); GetNodeResourceInfo(node.Name, workloads, fix) }")
		// API and recovery both go through doGetNodeResource
		NR := p.Fn("cluster/calcium.(*Calcium).NodeResource")
		why = "Calcium.NodeResource does not go through doGetNodeResource with its fix flag"
		if NR != nil {
			for _, c := range NR.calls(func(f *types.Func) bool { return f == D.Obj }) {
				if len(c.Args) == 4 && NR.objOf(c.Args[3]) == NR.paramObj(2) && NR.objOf(c.Args[1]) == NR.paramObj(1) {
					why = ""
				}
			}
		}
		r.check2(why, "LOCK", "cluster/calcium.(*Calcium).NodeResource / API and recovery share the locked repair path", "", "NodeResource(ctx, nodename, fix) → doGetNodeResource(ctx, nodename, true, fix)")
	}
}
