package main

// C17: the transaction helper rolls back exactly when a step failed (E12 txnpaths).

import (
	"fmt"
	"go/ast"
	"go/token"
	"go/types"
	"sort"
	"strings"

	"golang.org/x/tools/go/ssa"
)

func init() { register("C17", checkC17) }

// ctxRetOrigins: where may result #0 (a context) of f come from: "param#i", "fresh", or "unknown: ...".
func ctxRetOrigins(f *ssa.Function, depth int) map[string]bool {
	out := map[string]bool{}
	if f == nil || f.Blocks == nil || depth > 5 {
		out["unknown: no body"] = true
		return out
	}
	var trace func(v ssa.Value, seen map[ssa.Value]bool)
	trace = func(v ssa.Value, seen map[ssa.Value]bool) {
		if seen[v] {
			return
		}
		seen[v] = true
		switch x := v.(type) {
		case *ssa.Parameter:
			for i, p := range f.Params {
				if p == x {
					out[fmt.Sprintf("param#%d", i)] = true
				}
			}
		case *ssa.MakeInterface:
			trace(x.X, seen)
		case *ssa.ChangeInterface:
			trace(x.X, seen)
		case *ssa.ChangeType:
			trace(x.X, seen)
		case *ssa.Phi:
			for _, e := range x.Edges {
				trace(e, seen)
			}
		case *ssa.Extract:
			if c, ok := x.Tuple.(*ssa.Call); ok && x.Index == 0 && ctxDerivers[staticCalleeName(&c.Call)] {
				trace(c.Call.Args[0], seen)
				return
			}
			out["unknown: "+x.String()] = true
		case *ssa.UnOp:
			if x.Op == token.MUL {
				if vals, ok := reachingStores(x); ok && len(vals) > 0 {
					for _, v2 := range vals {
						trace(v2, seen)
					}
					return
				}
			}
			out["unknown: "+x.String()] = true
		case *ssa.Call:
			n := staticCalleeName(&x.Call)
			switch n {
			case "context.TODO", "context.Background":
				out["fresh"] = true
				return
			case "context.WithValue", "google.golang.org/grpc/peer.NewContext":
				trace(x.Call.Args[0], seen)
				return
			}
			if callee := x.Call.StaticCallee(); callee != nil && callee.Blocks != nil {
				for o := range ctxRetOrigins(callee, depth+1) {
					var i int
					if _, err := fmt.Sscanf(o, "param#%d", &i); err == nil && i < len(x.Call.Args) {
						trace(x.Call.Args[i], seen)
					} else {
						out[o] = true
					}
				}
				return
			}
			out["unknown: result of "+n] = true
		default:
			out["unknown: "+v.String()] = true
		}
	}
	for _, b := range f.Blocks {
		if len(b.Instrs) == 0 {
			continue
		}
		if ret, ok := b.Instrs[len(b.Instrs)-1].(*ssa.Return); ok && len(ret.Results) > 0 {
			trace(ret.Results[0], map[ssa.Value]bool{})
		}
	}
	return out
}

func keysOf(m map[string]bool) []string {
	var ks []string
	for k := range m {
		ks = append(ks, k)
	}
	sort.Strings(ks)
	return ks
}

func checkC17(p *Prog, r *Result, tier string) {
	r.Technique = "path-sensitive abstract interpretation of the go/ssa form of utils.Txn and utils.PCR over the finite domain {nil, failed-by-step} x {present, absent} for the three steps (all 18 + 8 outcome vectors enumerated), with context provenance (caller-cancellable vs detached) established by an SSA value-origin rule on utils.NewInheritCtx"
	r.Explanation = "DET utils.NewInheritCtx returns a context whose every origin is context.TODO/Background (values copied with WithValue/peer.NewContext only), never its argument: cancelling the caller cannot cancel it; " +
		"OUT for each outcome vector (condition ok/fail; follow-up absent/ok/fail; rollback absent/ok/fail) the abstract run of Txn's SSA makes exactly the calls the specification allows: the condition step once and first; the follow-up step iff the condition succeeded and a follow-up exists; the rollback exactly once iff a step failed and a rollback exists, after the steps, with failureByCond = (the condition step failed) and under a detached context; the returned error is the first failure (nil if none); " +
		"PCR the same for the prepare/commit/rollback form over its 8 outcome vectors: rollback runs iff prepare succeeded and commit failed. The interpretation is exhaustive over the abstract domain; a branch the domain does not determine makes the check undecided."
	r.NotCovered = "real-time behaviour of the ttl timeouts; a step that panics; cancellation observed inside a step (the steps are opaque)"
	r.Assumptions = []string{"context.WithTimeout/WithValue keep the cancellation root of their parent; context.TODO/Background are never cancelled"}
	r.min("DET", 1)
	r.min("OUT", 18)
	r.min("PCR", 8)

	T, P, N := p.Fn("utils.Txn"), p.Fn("utils.PCR"), p.Fn("utils.NewInheritCtx")
	if T == nil || P == nil || N == nil {
		r.undecided("anchor", "utils.Txn / utils.PCR / utils.NewInheritCtx", "", "not found")
		return
	}
	p.SSA()
	sT, sP, sN := p.SSAFunc(T), p.SSAFunc(P), p.SSAFunc(N)
	if sT == nil || sP == nil || sN == nil {
		r.undecided("anchor", "ssa of utils.Txn / PCR / NewInheritCtx", "", "no SSA function")
		return
	}
	// ---- DET
	orig := ctxRetOrigins(sN, 0)
	detached := len(orig) > 0
	for o := range orig {
		if o != "fresh" {
			detached = false
		}
	}
	r.check(detached, "DET", "utils.NewInheritCtx / result is detached from the argument's cancellation", p.pos(N.Decl), "origins: "+strings.Join(keysOf(orig), ", "),
		"the returned context may originate from "+strings.Join(keysOf(orig), ", ")+": a rollback running under it is interrupted when the caller's context is cancelled")

	// DET2: the detached context carries no deadline or cancel function of its own either — a deadline copied from the
	// caller cuts the rollback short exactly when the caller's time budget is what made a step fail
	{
		bad := ""
		seen := map[*FuncNode]bool{}
		var visit func(fn *FuncNode, depth int)
		visit = func(fn *FuncNode, depth int) {
			if fn == nil || fn.Body == nil || seen[fn] || depth > 2 {
				return
			}
			seen[fn] = true
			ast.Inspect(fn.Body, func(n ast.Node) bool {
				c, ok := n.(*ast.CallExpr)
				if !ok || fn.Callee(c) == nil {
					return true
				}
				f := fn.Callee(c)
				if f.Pkg() != nil && f.Pkg().Path() == "context" {
					switch f.Name() {
					case "WithDeadline", "WithTimeout", "WithCancel", "WithDeadlineCause", "WithTimeoutCause", "WithCancelCause":
						bad = "context." + f.Name() + " at " + p.pos(c)
					}
				}
				if f.Name() == "Deadline" || f.Name() == "Done" {
					if sel, ok := unparen(c.Fun).(*ast.SelectorExpr); ok {
						if t := fn.typeOf(sel.X); t != nil && t.String() == "context.Context" {
							bad = "a read of the argument's " + f.Name() + "() at " + p.pos(c)
						}
					}
				}
				if t := p.ByObj[f]; t != nil && t.Pkg == fn.Pkg {
					visit(t, depth+1)
				}
				return true
			})
		}
		visit(N, 0)
		r.min("DET", 2)
		r.check(bad == "", "DET", "utils.NewInheritCtx / the detached context has no deadline or cancellation of its own", p.pos(N.Decl), "no context.WithDeadline/WithTimeout/WithCancel and no read of the argument's Deadline()/Done() in NewInheritCtx and its helpers",
			bad+": the context under which rollbacks and deferred clean-ups run expires with the caller's deadline (or on a cancel that nobody can see): a rollback that starts because the caller ran out of time is cut short at once")
	}

	// RBC: the rollback (and the then-step of the no-rollback form) gets a FULL time budget of its own: its context is
	// context.WithTimeout(<detached context>, ttl) with the transaction's ttl parameter — not a deadline taken over from the
	// transaction's or the caller's context (a rollback that starts because time ran out would start on a dead context)
	{
		ttl := T.paramObj(4)
		why := ""
		n := 0
		var visit func(fn *FuncNode)
		seenH := map[*FuncNode]bool{}
		visit = func(fn *FuncNode) {
			fn.inspectBody(func(x ast.Node) bool {
				c, ok := x.(*ast.CallExpr)
				if !ok || fn.Callee(c) == nil || fn.Callee(c).Pkg() == nil || fn.Callee(c).Pkg().Path() != "context" {
					if ok && fn.Callee(c) != nil && fn.Callee(c).Name() == "Deadline" {
						why = "a context's Deadline() is read at " + p.pos(c) + ": a step's or the rollback's budget is tied to another context's deadline"
					}
					// a helper of the package that is handed the ttl (the rollback tail as a function of its own)
					if ok && fn.Callee(c) != nil {
						if H := p.ByObj[fn.Callee(c)]; H != nil && H.Body != nil && H.Pkg == T.Pkg && H != T && !seenH[H] {
							for i, a := range c.Args {
								if fn.objOf(a) == ttl && ttl != nil {
									seenH[H] = true
									saved := ttl
									ttl = H.paramObj(i)
									visit(H)
									for _, l := range H.Lits {
										visit(l)
									}
									ttl = saved
								}
							}
						}
					}
					return true
				}
				switch fn.Callee(c).Name() {
				case "WithTimeout":
					n++
					if len(c.Args) != 2 || fn.objOf(c.Args[1]) != ttl {
						why = "context.WithTimeout at " + p.pos(c) + " does not use the transaction's ttl"
					}
				case "WithDeadline", "WithDeadlineCause":
					why = "context.WithDeadline at " + p.pos(c) + ": the derived context shares a deadline with another one instead of getting ttl of its own"
				}
				return true
			})
			for _, l := range fn.Lits {
				visit(l)
			}
		}
		visit(T)
		if n < 2 && why == "" {
			why = "fewer than two context.WithTimeout(…, ttl) derivations in Txn (steps and rollback)"
		}
		r.min("RBC", 1)
		r.check2(why, "RBC", "utils.Txn / every derived context gets the transaction's ttl as a budget of its own", p.pos(T.Decl), fmt.Sprintf("%d × context.WithTimeout(…, ttl); no WithDeadline, no Deadline() read", n))
	}

	inFamily := func(f *ssa.Function) bool {
		for g := f; g != nil; g = g.Parent() {
			if g == sT || g == sP {
				return true
			}
		}
		// a helper of the same package that is handed a step (a function-typed parameter) is part of the helper's
		// logic (e.g. the rollback tail extracted into a function of its own): interpreted, not treated as opaque
		if f.Pkg != nil && sT.Pkg != nil && f.Pkg == sT.Pkg && f != sN && f.Blocks != nil {
			for _, prm := range f.Params {
				if _, isFn := prm.Type().Underlying().(*types.Signature); isFn {
					return true
				}
			}
		}
		return false
	}
	newInterp := func(out map[string]aval) *interp {
		it := &interp{p: p, outcome: out, fuel: 20000, inlineOK: inFamily, detached: map[string]bool{}}
		if detached {
			it.detached[fnFullName(sN)] = true
		}
		return it
	}
	evs := func(es []stepEvent) string {
		var s []string
		for _, e := range es {
			x := e.Name + "(ctx:" + e.Ctx
			if e.Flag != "" {
				x += ", failureByCond=" + e.Flag
			}
			s = append(s, x+")")
		}
		return "[" + strings.Join(s, " ") + "]"
	}
	resStr := func(v aval) string {
		switch x := v.(type) {
		case aNil:
			return "nil"
		case aErr:
			return "error of " + x.from
		}
		return fmt.Sprintf("%T", v)
	}

	// ---- OUT: Txn
	pnames := []string{}
	for _, prm := range sT.Params {
		pnames = append(pnames, prm.Name())
	}
	if len(sT.Params) != 5 {
		r.undecided("OUT", "utils.Txn signature", p.pos(T.Decl), "Txn no longer takes (ctx, cond, then, rollback, ttl)")
		return
	}
	for _, condOK := range []bool{true, false} {
		for _, then := range []string{"absent", "ok", "fail"} {
			for _, rb := range []string{"absent", "ok", "fail"} {
				key := fmt.Sprintf("utils.Txn / cond %s, then %s, rollback %s", map[bool]string{true: "ok", false: "fails"}[condOK], then, rb)
				out := map[string]aval{"cond": aNil{}, "then": aNil{}, "rollback": aNil{}}
				if !condOK {
					out["cond"] = aErr{"cond"}
				}
				if then == "fail" {
					out["then"] = aErr{"then"}
				}
				if rb == "fail" {
					out["rollback"] = aErr{"rollback"}
				}
				args := []aval{aCtx{"caller"}, aStep{"cond"}, aStep{"then"}, aStep{"rollback"}, aOpaque{"ttl"}}
				if then == "absent" {
					args[2] = aNil{}
				}
				if rb == "absent" {
					args[3] = aNil{}
				}
				it := newInterp(out)
				res := it.run(sT, args, nil)
				if it.problem != "" {
					r.undecided("OUT", key, p.pos(T.Decl), it.problem)
					continue
				}
				// specification
				var want []string
				want = append(want, "cond")
				thenRuns := condOK && then != "absent"
				if thenRuns {
					want = append(want, "then")
				}
				failed := !condOK || (thenRuns && then == "fail")
				if failed && rb != "absent" {
					want = append(want, "rollback")
				}
				wantRes := "nil"
				if !condOK {
					wantRes = "error of cond"
				} else if thenRuns && then == "fail" {
					wantRes = "error of then"
				}
				why := ""
				var got []string
				for _, e := range it.events {
					got = append(got, e.Name)
					if e.Name == "rollback" {
						if e.Ctx != "detached" {
							why = "rollback runs under a context rooted at " + e.Ctx + ": the caller's cancellation interrupts it"
						}
						if e.Flag != fmt.Sprint(!condOK) {
							why = fmt.Sprintf("rollback is told failureByCond=%s but the condition step %s", e.Flag, map[bool]string{true: "succeeded", false: "failed"}[condOK])
						}
					}
					if e.Name == "cond" && e.Ctx != "caller" {
						why = "the condition step does not run under a context derived from the caller's"
					}
				}
				if strings.Join(got, ",") != strings.Join(want, ",") {
					why = fmt.Sprintf("calls made %v, specification %v", got, want)
				}
				if len(res) != 1 {
					why = "Txn does not return exactly one value"
				} else if resStr(res[0]) != wantRes {
					why = fmt.Sprintf("returns %s, specification: %s", resStr(res[0]), wantRes)
				}
				r.check2(why, "OUT", key, p.pos(T.Decl), fmt.Sprintf("calls %s, returns %s", evs(it.events), wantRes))
			}
		}
	}
	// ---- PCR
	if len(sP.Params) != 5 {
		r.undecided("PCR", "utils.PCR signature", p.pos(P.Decl), "PCR no longer takes (ctx, prepare, commit, rollback, ttl)")
		return
	}
	for _, prep := range []bool{true, false} {
		for _, com := range []bool{true, false} {
			for _, rb := range []bool{true, false} {
				b2s := map[bool]string{true: "ok", false: "fails"}
				key := fmt.Sprintf("utils.PCR / prepare %s, commit %s, rollback %s", b2s[prep], b2s[com], b2s[rb])
				out := map[string]aval{"prepare": aNil{}, "commit": aNil{}, "rollback": aNil{}}
				if !prep {
					out["prepare"] = aErr{"prepare"}
				}
				if !com {
					out["commit"] = aErr{"commit"}
				}
				if !rb {
					out["rollback"] = aErr{"rollback"}
				}
				it := newInterp(out)
				res := it.run(sP, []aval{aCtx{"caller"}, aStep{"prepare"}, aStep{"commit"}, aStep{"rollback"}, aOpaque{"ttl"}}, nil)
				if it.problem != "" {
					r.undecided("PCR", key, p.pos(P.Decl), it.problem)
					continue
				}
				want := []string{"prepare"}
				wantRes := "nil"
				if prep {
					want = append(want, "commit")
					if !com {
						want = append(want, "rollback")
						wantRes = "error of commit"
					}
				} else {
					wantRes = "error of prepare"
				}
				why := ""
				var got []string
				for _, e := range it.events {
					got = append(got, e.Name)
					if e.Name == "rollback" && e.Ctx != "detached" {
						why = "rollback runs under a context rooted at " + e.Ctx
					}
				}
				if strings.Join(got, ",") != strings.Join(want, ",") {
					why = fmt.Sprintf("calls made %v, specification %v (rollback only when the commit step fails)", got, want)
				}
				if len(res) != 1 || resStr(res[0]) != wantRes {
					why = fmt.Sprintf("returns %v, specification: %s", func() string {
						if len(res) == 1 {
							return resStr(res[0])
						}
						return "?"
					}(), wantRes)
				}
				r.check2(why, "PCR", key, p.pos(P.Decl), fmt.Sprintf("calls %s, returns %s", evs(it.events), wantRes))
			}
		}
	}
	r.Analysed["outcome_vectors"] = 26
	_ = pnames
}
