package main

// C16: the recovery log replays exactly the uncommitted events.

import (
	"fmt"
	"go/ast"
	"go/token"
	"go/types"
	"regexp"
	"strings"

	"golang.org/x/tools/go/ssa"
)

func init() { register("C16", checkC16) }

func checkC16(p *Prog, r *Result, tier string) {
	r.Technique = "format/constant agreement between the key writer and reader (type-checked AST), value-origin rule for event ids, abstract interpretation of the go/ssa form of Hydro.recover over all handler outcome vectors (decode, check, handle, delete), go/cfg + AST shape rules for the replay loop and the store scan"
	r.Explanation = "K1 an event key is the shared prefix constant joined with the id printed as zero-padded fixed-width hexadecimal of width 16 (64 bits / 4): byte order of keys equals numeric order of ids, so a prefix scan yields logging order; K2 the reader strips the same prefix constant and parses base 16 into 64 bits; " +
		"K3 the id of a logged event comes only from the store's NextSequence, which takes it from the bucket's persistent sequence inside an update transaction (never reused, also across restarts: the store never deletes that bucket nor sets its sequence), and the entry is written under that event's key before the commit function is returned; K4 the commit function deletes exactly that event's key; " +
		"R1 (abstract interpretation, 18 outcome vectors) replaying one event deletes it exactly when decoding succeeded and either Check said not-needed without error or Handle succeeded; Handle runs iff Check asked for it; each step runs at most once; a failure is returned; " +
		"R2 Recover collects the decodable events in scan order into one slice and replays them in one sequential range over that slice (no goroutine, no reordering), one recover call per element, skipping (not deleting) events without a registered handler; S1 the store scan is ONE forward walk of the bucket cursor, started at the prefix parameter itself (Seek/Next), not a walk that is resumed from a saved key or repeated in a loop."
	r.NotCovered = "bbolt's own guarantees (atomic update, persistent sequence, cursor order); concurrent loggers interleaving with a running recovery; what the handlers do"
	r.Assumptions = []string{"A4 bbolt behaves as documented"}
	r.min("K1", 1)
	r.min("K2", 1)
	r.min("K3", 4)
	r.min("K4", 1)
	r.min("R1", 18)
	r.min("R2", 4)
	r.min("S1", 1)

	K := p.Fn("wal.HydroEvent.Key")
	PR := p.Fn("wal.parseHydroEventID")
	L := p.Fn("wal.(*Hydro).Log")
	RC := p.Fn("wal.(*Hydro).recover")
	RV := p.Fn("wal.(*Hydro).Recover")
	NS := p.Fn("wal/kv.(*Lithium).NextSequence")
	SC := p.Fn("wal/kv.(*Lithium).Scan")
	for name, fn := range map[string]*FuncNode{"wal.HydroEvent.Key": K, "wal.parseHydroEventID": PR, "wal.(*Hydro).Log": L, "wal.(*Hydro).recover": RC, "wal.(*Hydro).Recover": RV, "wal/kv.(*Lithium).NextSequence": NS, "wal/kv.(*Lithium).Scan": SC} {
		if fn == nil {
			r.undecided("anchor", name, "", "not found")
		}
	}
	if K == nil || PR == nil || L == nil || RC == nil || RV == nil || NS == nil || SC == nil {
		return
	}

	// ---- K1: key writer
	var prefixObj types.Object
	{
		why := "no fmt.Sprintf of the id found"
		var at ast.Node = K.Decl
		rv := recvObj(K)
		for _, c := range K.callsDeep(nameIs("fmt.Sprintf")) {
			at = c
			f, ok := K.constString(c.Args[0])
			if !ok || len(c.Args) != 2 {
				why = "format is not a constant with one argument"
				continue
			}
			m := regexp.MustCompile(`^%0(\d+)[xX]$`).FindStringSubmatch(f)
			if m == nil {
				why = fmt.Sprintf("format %q is not zero-padded fixed-width hexadecimal: keys of different length do not sort in id order, so recovery would replay out of logging order", f)
				continue
			}
			if m[1] != "16" {
				why = fmt.Sprintf("width %s is not 16 = 64 bits / 4: ids above the width sort out of order", m[1])
				continue
			}
			sel, ok := unparen(c.Args[1]).(*ast.SelectorExpr)
			if !ok || K.objOf(sel.X) != rv || sel.Sel.Name != "ID" {
				why = "the formatted value is not the event's ID"
				continue
			}
			// joined with the prefix constant
			why = "the formatted id is not joined with a prefix constant"
			for _, j := range K.callsDeep(nameIs("path/filepath.Join")) {
				if len(j.Args) == 2 && unparen(j.Args[1]) == ast.Expr(c) {
					if o := K.objOf(j.Args[0]); o != nil {
						if _, isConst := o.(*types.Const); isConst {
							prefixObj = o
							why = ""
						}
					}
				}
			}
		}
		r.check2(why, "K1", "wal.HydroEvent.Key / prefix + %016x of the id", p.pos(at), "filepath.Join(prefix constant, Sprintf(\"%016x\", e.ID))")
	}
	// ---- K2: reader
	{
		why := ""
		var at ast.Node = PR.Decl
		pu := PR.callsDeep(nameIs("strconv.ParseUint"))
		if len(pu) != 1 {
			why = "no single strconv.ParseUint"
		} else {
			at = pu[0]
			b, ok1 := PR.constInt(pu[0].Args[1])
			w, ok2 := PR.constInt(pu[0].Args[2])
			if !ok1 || !ok2 || b != 16 || w != 64 {
				why = fmt.Sprintf("ParseUint(…, %s, %s) does not read what %%016x writes (base 16, 64 bits)", exprStr(pu[0].Args[1]), exprStr(pu[0].Args[2]))
			}
		}
		if why == "" {
			tp := PR.callsDeep(nameIs("strings.TrimPrefix"))
			if len(tp) != 1 || prefixObj == nil || PR.objOf(tp[0].Args[1]) != prefixObj {
				why = "the reader does not strip the same prefix constant the writer joins"
			}
		}
		r.check2(why, "K2", "wal.parseHydroEventID / strips the writer's prefix, parses base 16 into 64 bits", p.pos(at), "TrimPrefix(key, prefix) then ParseUint(…, 16, 64)")
	}
	// ---- K3: id origin, persistence of the sequence, put before return
	{
		// the variable passed to NewHydroEvent as id is assigned only from h.store.NextSequence()
		why := "no NewHydroEvent call"
		var at ast.Node = L.Decl
		var evObj types.Object
		for _, c := range L.calls(nameIs("wal.NewHydroEvent")) {
			at = c
			idObj := L.objOf(c.Args[0])
			if idObj == nil {
				why = "event id is not a variable"
				continue
			}
			nAssign, nSeq := 0, 0
			L.inspectBody(func(n ast.Node) bool {
				as, ok := n.(*ast.AssignStmt)
				if !ok {
					return true
				}
				for _, l := range as.Lhs {
					if L.objOf(l) == idObj {
						nAssign++
						if len(as.Rhs) == 1 {
							if cc, ok := unparen(as.Rhs[0]).(*ast.CallExpr); ok {
								if f := L.Callee(cc); kvMethod("NextSequence")(f) {
									nSeq++
								}
							}
						}
					}
				}
				return true
			})
			if nAssign == 1 && nSeq == 1 {
				why = ""
			} else {
				why = fmt.Sprintf("the event id is assigned %d time(s), %d of them from the store's NextSequence: an id from any other source can repeat", nAssign, nSeq)
			}
			// find the variable holding the event
			L.inspectBody(func(n ast.Node) bool {
				if as, ok := n.(*ast.AssignStmt); ok && len(as.Rhs) == 1 && unparen(as.Rhs[0]) == ast.Expr(c) {
					evObj = L.objOf(as.Lhs[0])
				}
				return true
			})
		}
		r.check2(why, "K3", "wal.(*Hydro).Log / event id comes only from the store's NextSequence", p.pos(at), "single assignment from h.store.NextSequence()")

		// Lithium.NextSequence -> bbolt Bucket.NextSequence inside l.update
		why = "bbolt (*Bucket).NextSequence is not called inside the update transaction"
		for _, lit := range NS.Lits {
			for _, c := range lit.calls(func(f *types.Func) bool { return fullObjName(f) == "go.etcd.io/bbolt.(*Bucket).NextSequence" }) {
				_ = c
				// the literal is the argument of l.update
				for _, u := range NS.calls(nameIs("wal/kv.(*Lithium).update")) {
					if len(u.Args) == 1 && unparen(u.Args[0]) == ast.Expr(lit.Lit) {
						why = ""
					}
				}
			}
		}
		r.check2(why, "K3", "wal/kv.(*Lithium).NextSequence / persistent bucket sequence inside an update transaction", p.pos(NS.Decl), "bkt.NextSequence() inside l.update")

		// the sequence lives in the bucket: the store never deletes the bucket and never sets the sequence — either would
		// restart the ids (a later event then sorts BEFORE, or collides with, one that was logged earlier)
		{
			bad := ""
			nfn := 0
			for _, fn := range p.sortedFuncs("wal/kv") {
				if fn.Body == nil {
					continue
				}
				nfn++
				ast.Inspect(fn.Body, func(n ast.Node) bool {
					c, ok := n.(*ast.CallExpr)
					if !ok || fn.Callee(c) == nil {
						return true
					}
					f := fn.Callee(c)
					if f.Pkg() != nil && strings.Contains(f.Pkg().Path(), "bbolt") {
						switch f.Name() {
						case "DeleteBucket", "SetSequence":
							bad = f.Name() + " at " + p.pos(c)
						}
					}
					return true
				})
			}
			if nfn == 0 {
				r.undecided("K3", "wal/kv / the bucket that holds the sequence is never deleted and its sequence never set", "", "no function of wal/kv found")
			} else {
				r.check2(func() string {
					if bad == "" {
						return ""
					}
					return bad + ": the persistent sequence behind NextSequence restarts, so event ids are used again after a restart and replay order no longer is logging order"
				}(), "K3", "wal/kv / the bucket that holds the sequence is never deleted and its sequence never set", p.pos(NS.Decl), fmt.Sprintf("no bbolt DeleteBucket/SetSequence in the %d functions of wal/kv", nfn))
			}
		}

		// Put(event.Key(), …) dominates the return of the commit closure
		why = "no store.Put of the event's key before the commit function is returned"
		var putRef nodeRef
		for _, c := range L.calls(kvMethod("Put")) {
			if kc, ok := unparen(c.Args[0]).(*ast.CallExpr); ok {
				if f := L.Callee(kc); f != nil && f == K.Obj {
					if sel, ok := unparen(kc.Fun).(*ast.SelectorExpr); ok && evObj != nil && L.objOf(sel.X) == evObj {
						putRef = L.find(c)
					}
				}
			}
		}
		if putRef.valid() {
			why = ""
			L.inspectBody(func(n ast.Node) bool {
				if rt, ok := n.(*ast.ReturnStmt); ok && len(rt.Results) == 2 {
					if _, isLit := unparen(rt.Results[0]).(*ast.FuncLit); isLit && !L.dominates(putRef, L.find(rt)) {
						why = "a commit function is returned on a path that did not write the entry"
					}
				}
				return true
			})
		}
		r.check2(why, "K3", "wal.(*Hydro).Log / entry written under the event's key before the commit function is handed out", p.pos(L.Decl), "store.Put(event.Key(), …) dominates `return func…`")

		// ---- K4 commit deletes this event's key
		why = "no returned commit literal"
		L.inspectBody(func(n ast.Node) bool {
			rt, ok := n.(*ast.ReturnStmt)
			if !ok || len(rt.Results) != 2 {
				return true
			}
			lit, ok := unparen(rt.Results[0]).(*ast.FuncLit)
			if !ok {
				return true
			}
			cn := p.ByLit[lit]
			why = "the commit function does not delete the logged event's key"
			for _, c := range cn.calls(kvMethod("Delete")) {
				if kc, ok := unparen(c.Args[0]).(*ast.CallExpr); ok && cn.Callee(kc) == K.Obj {
					if sel, ok := unparen(kc.Fun).(*ast.SelectorExpr); ok && evObj != nil && cn.objOf(sel.X) == evObj {
						if len(cn.Body.List) == 1 {
							if _, isRet := cn.Body.List[0].(*ast.ReturnStmt); isRet {
								why = ""
							}
						}
					}
				}
			}
			return true
		})
		r.check2(why, "K4", "wal.(*Hydro).Log / commit deletes exactly the logged event's key", p.pos(L.Decl), "return h.store.Delete(event.Key())")
	}

	// ---- R1: abstract interpretation of Hydro.recover
	p.SSA()
	sRC := p.SSAFunc(RC)
	if sRC == nil {
		r.undecided("R1", "wal.(*Hydro).recover", p.pos(RC.Decl), "no SSA")
	} else {
		inFamily := func(f *ssa.Function) bool {
			for g := f; g != nil; g = g.Parent() {
				if g == sRC {
					return true
				}
			}
			return false
		}
		b2s := map[bool]string{true: "ok", false: "fails"}
		for _, dec := range []bool{true, false} {
			for _, chkErr := range []bool{true, false} { // true = no error
				for _, need := range []bool{true, false} {
					for _, hdl := range []bool{true, false} {
						for _, del := range []bool{true, false} {
							if !dec && !(chkErr && need && hdl) { // after a decode failure nothing else matters: one vector per delete outcome
								continue
							}
							key := fmt.Sprintf("wal.(*Hydro).recover / decode %s, check %s needed=%v, handle %s, delete %s", b2s[dec], b2s[chkErr], need, b2s[hdl], b2s[del])
							out := map[string]aval{"Decode": aTuple{[]aval{aOpaque{"item"}, aNil{}}}, "Handle": aNil{}, "Delete": aNil{}}
							if !dec {
								out["Decode"] = aTuple{[]aval{aOpaque{"item"}, aErr{"Decode"}}}
							}
							var ce aval = aNil{}
							if !chkErr {
								ce = aErr{"Check"}
							}
							out["Check"] = aTuple{[]aval{aBool{need}, ce}}
							if !hdl {
								out["Handle"] = aErr{"Handle"}
							}
							if !del {
								out["Delete"] = aErr{"Delete"}
							}
							it := &interp{p: p, outcome: out, fuel: 20000, inlineOK: inFamily, detached: map[string]bool{}}
							args := make([]aval, len(sRC.Params))
							for i := range args {
								args[i] = aOpaque{"arg"}
							}
							res := it.run(sRC, args, nil)
							if it.problem != "" {
								r.undecided("R1", key, p.pos(RC.Decl), it.problem)
								continue
							}
							want := []string{"Decode"}
							wantErr := ""
							switch {
							case !dec:
								wantErr = "Decode"
							case !chkErr:
								want = append(want, "Check")
								wantErr = "Check"
							case !need:
								want = append(want, "Check", "Delete")
								if !del {
									wantErr = "Delete"
								}
							case !hdl:
								want = append(want, "Check", "Handle")
								wantErr = "Handle"
							default:
								want = append(want, "Check", "Handle", "Delete")
								if !del {
									wantErr = "Delete"
								}
							}
							var got []string
							for _, e := range it.events {
								got = append(got, e.Name)
							}
							why := ""
							if strings.Join(got, ",") != strings.Join(want, ",") {
								why = fmt.Sprintf("steps performed %v, specification %v (the event must be deleted exactly when its handler succeeded or declared it unnecessary)", got, want)
							}
							gotErr := "?"
							if len(res) == 1 {
								switch x := res[0].(type) {
								case aNil:
									gotErr = ""
								case aErr:
									gotErr = x.from
								}
							}
							if why == "" && gotErr != wantErr {
								why = fmt.Sprintf("returns error of %q, specification %q", gotErr, wantErr)
							}
							r.check2(why, "R1", key, p.pos(RC.Decl), fmt.Sprintf("steps %v", got))
						}
					}
				}
			}
		}
	}

	// ---- R2: replay loop
	{
		// events slice: appended in a receive loop with the result of decodeEvent
		var evSlice types.Object
		var scanLoop ast.Stmt
		RV.inspectBody(func(n ast.Node) bool {
			var fs ast.Stmt
			var body *ast.BlockStmt
			switch l := n.(type) {
			case *ast.ForStmt:
				fs, body = l, l.Body
			case *ast.RangeStmt:
				// `for entry := range ch` is the same receive loop
				if _, isChan := RV.typeOf(l.X).Underlying().(*types.Chan); isChan {
					fs, body = l, l.Body
				}
			}
			if fs == nil {
				return true
			}
			inspectNoLit(body, func(x ast.Node) bool {
				if as, ok := x.(*ast.AssignStmt); ok && len(as.Lhs) == 1 && len(as.Rhs) == 1 {
					if c, ok := unparen(as.Rhs[0]).(*ast.CallExpr); ok {
						if id, ok := c.Fun.(*ast.Ident); ok && id.Name == "append" && len(c.Args) == 2 && RV.objOf(c.Args[0]) == RV.objOf(as.Lhs[0]) {
							evSlice, scanLoop = RV.objOf(as.Lhs[0]), fs
						}
					}
				}
				return true
			})
			return true
		})
		if evSlice == nil {
			r.undecided("R2", "wal.(*Hydro).Recover / scan loop", p.pos(RV.Decl), "no loop appending decoded events to a slice")
		} else {
			// the scan loop receives from the channel returned by store.Scan(prefix) and appends in arrival order only
			why := ""
			nApp := 0
			ast.Inspect(RV.Body, func(x ast.Node) bool {
				if c, ok := x.(*ast.CallExpr); ok {
					if id, ok := c.Fun.(*ast.Ident); ok && id.Name == "append" && len(c.Args) > 0 && RV.objOf(c.Args[0]) == evSlice {
						nApp++
						if len(c.Args) != 2 {
							why = "append with other than one element"
						}
					}
					if f := RV.Callee(c); f != nil && f.Pkg() != nil && (f.Pkg().Path() == "sort" || f.Pkg().Path() == "slices") {
						why = "the collected events are reordered by " + fullObjName(f)
					}
				}
				if as, ok := x.(*ast.AssignStmt); ok {
					for _, l := range as.Lhs {
						if ix, ok := unparen(l).(*ast.IndexExpr); ok && RV.objOf(ix.X) == evSlice {
							why = "an element of the collected events is overwritten"
						}
					}
				}
				return true
			})
			if nApp != 1 {
				why = fmt.Sprintf("%d appends to the event list", nApp)
			}
			scanOK := false
			for _, c := range RV.calls(kvMethod("Scan")) {
				if len(c.Args) == 1 && prefixObj != nil && RV.usesObj(c.Args[0], prefixObj) {
					scanOK = true
				}
			}
			if !scanOK {
				why = "the scan does not use the event prefix constant"
			}
			r.check2(why, "R2", "wal.(*Hydro).Recover / decodable events are collected once each, in scan order", p.pos(scanLoop), "one append per received entry, no reordering")

			// replay: range over evSlice, one h.recover call in its body, not under go / closure / nested loop
			var rng *ast.RangeStmt
			RV.inspectBody(func(n ast.Node) bool {
				if rs, ok := n.(*ast.RangeStmt); ok && RV.objOf(rs.X) == evSlice {
					rng = rs
				}
				return true
			})
			rcCalls := RV.callsDeep(func(f *types.Func) bool { return f == RC.Obj })
			why = ""
			switch {
			case rng == nil:
				why = "no range over the collected events"
			case len(rcCalls) != 1:
				why = fmt.Sprintf("%d calls of recover in Recover (want exactly one, inside the range)", len(rcCalls))
			default:
				c := rcCalls[0]
				if !(rng.Body.Pos() <= c.Pos() && c.End() <= rng.Body.End()) {
					why = "the recover call is outside the range over the collected events"
				}
				if rng.Pos() < scanLoop.End() && rng.End() > scanLoop.Pos() {
					why = "replay is nested in the scan loop"
				}
				// not inside a literal, go statement or an inner loop
				bad := ""
				var stack []ast.Node
				ast.Inspect(rng.Body, func(x ast.Node) bool {
					if x == nil {
						stack = stack[:len(stack)-1]
						return false
					}
					stack = append(stack, x)
					if x == ast.Node(c) {
						for _, a := range stack {
							switch a.(type) {
							case *ast.FuncLit, *ast.GoStmt, *ast.ForStmt, *ast.RangeStmt, *ast.DeferStmt:
								bad = fmt.Sprintf("the recover call sits inside a %T: events are no longer replayed one after the other, once each", a)
							}
						}
					}
					return true
				})
				if bad != "" {
					why = bad
				}
				// the event argument is the range value
				if why == "" && (rng.Value == nil || len(c.Args) != 3 || RV.objOf(c.Args[2]) != RV.objOf(rng.Value)) {
					why = "the replayed event is not the range element"
				}
				if why == "" && rng.Key != nil {
					if id, ok := rng.Key.(*ast.Ident); !ok || id.Name != "_" {
						why = ""
					}
				}
			}
			r.check2(why, "R2", "wal.(*Hydro).Recover / events are replayed sequentially in collected order, one recover call each", p.pos(rng), "for _, event := range events { … h.recover(ctx, handler, event) … }")

			// handler lookup failure and recover failure skip without deleting: no Delete call in Recover itself
			nDel := len(RV.callsDeep(kvMethod("Delete")))
			r.check(nDel == 0, "R2", "wal.(*Hydro).Recover / events are deleted only by recover", p.pos(RV.Decl), "no Delete in Recover", "Recover deletes entries itself: an event whose handler is missing or failed would be removed")
			// decodeEvent takes the id from the key
			D := p.Fn("wal.(*Hydro).decodeEvent")
			why = "decodeEvent does not take the event id from the scanned key"
			if D != nil {
				for _, c := range D.calls(func(f *types.Func) bool { return f == PR.Obj }) {
					_ = c
					why = ""
				}
			}
			r.check2(why, "R2", "wal.(*Hydro).decodeEvent / id parsed from the scanned key", p.pos(RV.Decl), "event.ID = parseHydroEventID(key)")
		}
	}

	// ---- S1: forward cursor scan
	{
		why := "no cursor loop found"
		var at ast.Node = SC.Decl
		// in Scan itself or in the function of the package it starts as the walker (`go l.scan(prefix, ch, exit)`)
		for _, owner := range p.withLocalCallees(SC, 2) {
			if owner.Body == nil {
				continue
			}
			ast.Inspect(owner.Body, func(n ast.Node) bool {
				fs, ok := n.(*ast.ForStmt)
				if !ok || fs.Init == nil || fs.Post == nil {
					return true
				}
				initS, ok1 := fs.Init.(*ast.AssignStmt)
				postS, ok2 := fs.Post.(*ast.AssignStmt)
				if !ok1 || !ok2 || len(initS.Rhs) != 1 || len(postS.Rhs) != 1 {
					return true
				}
				ic, ok1 := unparen(initS.Rhs[0]).(*ast.CallExpr)
				pc, ok2 := unparen(postS.Rhs[0]).(*ast.CallExpr)
				if !ok1 || !ok2 {
					return true
				}
				at = fs
				enc := p.enclosing(SC.Pkg, fs.Pos())
				fi, fp := enc.Callee(ic), enc.Callee(pc)
				if fi == nil || fp == nil {
					return true
				}
				ni, np := fullObjName(fi), fullObjName(fp)
				if (ni == "go.etcd.io/bbolt.(*Cursor).Seek" || ni == "go.etcd.io/bbolt.(*Cursor).First") && np == "go.etcd.io/bbolt.(*Cursor).Next" {
					why = ""
					// one walk: the cursor starts at the prefix parameter itself (a start key that is re-assigned means the walk
					// is resumed, and a resume that starts AT the last key delivers it twice) and the walk is not repeated in a loop
					if strings.HasSuffix(ni, "Seek") && len(ic.Args) == 1 {
						if id, ok := unparen(ic.Args[0]).(*ast.Ident); !ok || topOf(enc).paramIndex(enc.objOf(id)) < 0 {
							why = "the cursor starts at `" + exprStr(ic.Args[0]) + "`, not at the prefix parameter: the scan is resumed from a saved position, and an inclusive resume delivers the entry at every resume point twice (an event replayed twice within one recovery)"
						}
					}
					for f := enc; f != nil && why == ""; f = f.Parent {
						// the literal holding the walk is called from inside a loop of the enclosing function?
						if f.Lit == nil || f.Parent == nil {
							continue
						}
						ast.Inspect(f.Parent.Body, func(x ast.Node) bool {
							var lb *ast.BlockStmt
							switch l := x.(type) {
							case *ast.ForStmt:
								lb = l.Body
							case *ast.RangeStmt:
								lb = l.Body
							}
							if lb == nil {
								return true
							}
							// a call in the loop body that mentions the variable bound to the walking literal
							ast.Inspect(lb, func(y ast.Node) bool {
								c, ok := y.(*ast.CallExpr)
								if !ok {
									return true
								}
								for _, a := range c.Args {
									if t, ok2 := p.resolveFuncArg(f.Parent, a); ok2 && t == f {
										why = "the cursor walk is started again and again inside a loop (" + p.pos(c) + "): the scan is not one walk over a consistent view"
									}
								}
								return true
							})
							return true
						})
					}
				} else {
					why = fmt.Sprintf("cursor loop is %s … %s, not Seek/First … Next: entries are not produced in ascending key order", ni, np)
				}
				return true
			})
		}
		r.check2(why, "S1", "wal/kv.(*Lithium).Scan / forward cursor walk from the prefix", p.pos(at), "for k, v := c.Seek(prefix); …; k, v = c.Next()")
	}
	_ = token.NoPos
}

// kvMethod matches the method `name` of the wal/kv interfaces (KV embeds Simpler, Scanner, Sequencer).
func kvMethod(name string) func(*types.Func) bool {
	return func(f *types.Func) bool {
		return f != nil && f.Name() == name && f.Pkg() != nil && relPath(f.Pkg().Path()) == "wal/kv" && isInterfaceMethod(f)
	}
}
