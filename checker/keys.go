package main

// E8: symbolic evaluation of key/pattern strings; prefix-query separator rule (PK).

import (
	"fmt"
	"go/ast"
	"go/token"
	"go/types"
	"path/filepath"
	"strings"
)

const symVar = "\x00" // stands for a run-time string without "/" knowledge

// symStr evaluates a string-typed expression to a string in which every run-time part is replaced by symVar.
// ok=false when the shape cannot be determined.
func symStr(p *Prog, fn *FuncNode, e ast.Expr, depth int) (string, bool) {
	if depth > 5 {
		return "", false
	}
	e = unparen(e)
	if s, ok := fn.constString(e); ok {
		return s, true
	}
	switch x := e.(type) {
	case *ast.BinaryExpr:
		if x.Op == token.ADD {
			l, ok1 := symStr(p, fn, x.X, depth+1)
			r, ok2 := symStr(p, fn, x.Y, depth+1)
			if ok1 && ok2 {
				return l + r, true
			}
		}
	case *ast.Ident:
		obj := fn.Pkg.TypesInfo.ObjectOf(x)
		if _, isVar := obj.(*types.Var); isVar {
			// single definition in the lexical chain
			for owner := fn; owner != nil; owner = owner.Parent {
				if owner.paramIndex(obj) >= 0 {
					return symVar, true
				}
				var rhs ast.Expr
				n := 0
				ast.Inspect(owner.Body, func(nd ast.Node) bool {
					switch a := nd.(type) {
					case *ast.AssignStmt:
						if len(a.Lhs) == len(a.Rhs) {
							for i, l := range a.Lhs {
								if id, ok := l.(*ast.Ident); ok && owner.Pkg.TypesInfo.ObjectOf(id) == obj {
									n++
									rhs = a.Rhs[i]
								}
							}
						} else {
							for _, l := range a.Lhs {
								if id, ok := l.(*ast.Ident); ok && owner.Pkg.TypesInfo.ObjectOf(id) == obj {
									n += 2
								}
							}
						}
					case *ast.RangeStmt:
						for _, l := range []ast.Expr{a.Key, a.Value} {
							if id, ok := l.(*ast.Ident); ok && owner.Pkg.TypesInfo.ObjectOf(id) == obj {
								n += 2
							}
						}
					}
					return true
				})
				if n == 1 {
					return symStr(p, owner, rhs, depth+1)
				}
				if n > 1 {
					return symVar, true
				}
			}
			return symVar, true
		}
	case *ast.SelectorExpr:
		return symVar, true // field of a run-time value
	case *ast.CallExpr:
		f := fn.Callee(x)
		if f == nil {
			return symVar, true
		}
		switch fullObjName(f) {
		case "fmt.Sprintf":
			if len(x.Args) == 0 {
				return "", false
			}
			format, ok := fn.constString(x.Args[0])
			if !ok {
				return "", false
			}
			var b strings.Builder
			ai := 1
			for i := 0; i < len(format); i++ {
				if format[i] != '%' || i+1 >= len(format) {
					b.WriteByte(format[i])
					continue
				}
				i++
				if format[i] == '%' {
					b.WriteByte('%')
					continue
				}
				// skip flags/width
				for i < len(format) && strings.IndexByte("+-# 0123456789.", format[i]) >= 0 {
					i++
				}
				if ai < len(x.Args) {
					if format[i] == 's' || format[i] == 'v' {
						s, ok := symStr(p, fn, x.Args[ai], depth+1)
						if !ok {
							s = symVar
						}
						b.WriteString(s)
					} else {
						b.WriteString(symVar)
					}
					ai++
				}
			}
			return b.String(), true
		case "path/filepath.Join":
			var parts []string
			for _, a := range x.Args {
				s, ok := symStr(p, fn, a, depth+1)
				if !ok {
					s = symVar
				}
				if s != "" {
					parts = append(parts, s)
				}
			}
			if len(parts) == 0 {
				return "", true
			}
			return filepath.Clean(strings.Join(parts, "/")), true
		}
		return symVar, true
	}
	return "", false
}

func showSym(s string) string { return strings.ReplaceAll(s, symVar, "‹v›") }

// prefixQuerySites: every etcd Get/Watch with clientv3.WithPrefix() and every redis getByKeyPattern/KNotify call
// in the given packages, with the symbolic key.
type prefixSite struct {
	fn      *FuncNode
	call    *ast.CallExpr
	key     ast.Expr
	backend string
}

func prefixQuerySites(p *Prog, pkgs ...string) []prefixSite {
	var out []prefixSite
	for _, fn := range p.sortedFuncs(pkgs...) {
		if fn.Body == nil {
			continue
		}
		fn.inspectBody(func(n ast.Node) bool {
			c, ok := n.(*ast.CallExpr)
			if !ok {
				return true
			}
			f := fn.Callee(c)
			if f == nil {
				return true
			}
			nm := objName(f)
			switch {
			case (strings.HasSuffix(nm, ".Get") || strings.HasSuffix(nm, ".Watch")) && strings.HasPrefix(nm, "store/etcdv3/meta.") && len(c.Args) >= 3:
				for _, a := range c.Args[2:] {
					if oc, ok := unparen(a).(*ast.CallExpr); ok {
						if of := fn.Callee(oc); of != nil && fullObjName(of) == "go.etcd.io/etcd/client/v3.WithPrefix" {
							out = append(out, prefixSite{fn, c, c.Args[1], "etcd"})
						}
					}
				}
			case nm == "store/redis.(*Rediaron).getByKeyPattern" || nm == "store/redis.(*Rediaron).KNotify":
				if len(c.Args) >= 2 {
					out = append(out, prefixSite{fn, c, c.Args[1], "redis"})
				}
			}
			return true
		})
	}
	return out
}

// checkPrefixSite: etcd prefixes end in "/", redis patterns end in "/*" (or ":pod/*"-like "<sep>*" after a constant separator).
func checkPrefixSite(p *Prog, r *Result, rule string, s prefixSite) {
	top := topOf(s.fn)
	key := fmt.Sprintf("%s %s query key", top.Name, s.backend)
	// several queries in one function: disambiguate by the callee
	key += " (" + exprStr(s.call.Fun) + " " + exprStr(s.key) + ")"
	sym, ok := symStr(p, s.fn, s.key, 0)
	if !ok {
		r.undecided(rule, key, p.pos(s.call), "key expression shape not understood: "+exprStr(s.key))
		return
	}
	switch s.backend {
	case "etcd":
		if strings.HasSuffix(sym, "/") {
			r.ok(rule, key, p.pos(s.call), "prefix "+showSym(sym)+" ends with the separator")
		} else {
			r.bad(rule, key, p.pos(s.call), "prefix query key "+showSym(sym)+" does not end with '/': names that merely start with the requested name (web, web2) are matched too")
		}
	case "redis":
		if strings.HasSuffix(sym, "/*") {
			r.ok(rule, key, p.pos(s.call), "pattern "+showSym(sym)+" ends with '/*'")
		} else {
			r.bad(rule, key, p.pos(s.call), "pattern "+showSym(sym)+" does not end with '/*': it matches keys of other names sharing the prefix (or only an exact key)")
		}
	}
}
