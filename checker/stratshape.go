package main

// stratshape: path enumeration over structured statement lists with a linear symbolic state.
//
// Used for the placement strategies (C01/C02): every path through a loop body is executed symbolically; integer lvalues
// are tracked as linear forms over their values at loop entry, so that inductive invariants of the shape
// "plan[n] + capacity[n] is unchanged", "placed + need is unchanged" can be checked path by path, and the conditions a
// path has passed are available in the same vocabulary. This is an abstract interpretation of the source (no execution,
// no solver): expressions that are not linear become opaque symbols, and a check that meets an opaque symbol where it
// needs a value answers "undecided", never "holds".

import (
	"fmt"
	"go/ast"
	"go/token"
	"go/types"
	"sort"
	"strings"
)

// lin is a linear form: sum of coeff*symbol + k
type lin struct {
	c map[string]int
	k int
}

func linConst(k int) lin    { return lin{map[string]int{}, k} }
func linSym(s string) lin   { return lin{map[string]int{s: 1}, 0} }
func (a lin) add(b lin) lin { return a.comb(b, 1) }
func (a lin) sub(b lin) lin { return a.comb(b, -1) }
func (a lin) comb(b lin, f int) lin {
	r := lin{map[string]int{}, a.k + f*b.k}
	for s, c := range a.c {
		r.c[s] = c
	}
	for s, c := range b.c {
		r.c[s] += f * c
		if r.c[s] == 0 {
			delete(r.c, s)
		}
	}
	return r
}
func (a lin) isZero() bool  { return len(a.c) == 0 && a.k == 0 }
func (a lin) eq(b lin) bool { return a.sub(b).isZero() }
func (a lin) String() string {
	var ks []string
	for s := range a.c {
		ks = append(ks, s)
	}
	sort.Strings(ks)
	var parts []string
	for _, s := range ks {
		switch c := a.c[s]; c {
		case 1:
			parts = append(parts, "+"+s)
		case -1:
			parts = append(parts, "-"+s)
		default:
			parts = append(parts, fmt.Sprintf("%+d*%s", c, s))
		}
	}
	if a.k != 0 || len(parts) == 0 {
		parts = append(parts, fmt.Sprintf("%+d", a.k))
	}
	return strings.TrimPrefix(strings.Join(parts, ""), "+")
}

// hasOpaque: the form mentions a symbol that stands for a non-linear expression
func (a lin) hasOpaque() bool {
	for s := range a.c {
		if strings.HasPrefix(s, "‹") {
			return true
		}
	}
	return false
}

type condRec struct {
	expr ast.Expr
	pol  bool
	// for integer comparisons: lhs-rhs in entry symbols and the operator (after applying pol), else op == ""
	diff lin
	op   string
	text string // rendering of the (polarised) condition in entry symbols
}

type eventRec struct {
	call  *ast.CallExpr
	name  string
	state map[string]lin // snapshot at the call
}

type spath struct {
	conds  []condRec
	events []eventRec
	state  map[string]lin
	end    string // next | return | break | fall
	ret    *ast.ReturnStmt
	writes map[string][]ast.Node // term -> statements that wrote it
}

type shapeExec struct {
	fn    *FuncNode
	term  func(e ast.Expr) (string, bool) // normalised name of an integer lvalue/rvalue term
	paths []spath
	limit int
}

func cloneState(m map[string]lin) map[string]lin {
	r := make(map[string]lin, len(m))
	for k, v := range m {
		r[k] = v
	}
	return r
}

func (p spath) clone() spath {
	q := spath{conds: append([]condRec{}, p.conds...), events: append([]eventRec{}, p.events...), state: cloneState(p.state), writes: map[string][]ast.Node{}}
	for k, v := range p.writes {
		q.writes[k] = append([]ast.Node{}, v...)
	}
	return q
}

func (x *shapeExec) read(st map[string]lin, t string) lin {
	if v, ok := st[t]; ok {
		return v
	}
	return linSym(t)
}

func (x *shapeExec) opaque(e ast.Expr, st map[string]lin) lin {
	return linSym("‹" + exprStr(e) + "›")
}

func (x *shapeExec) eval(e ast.Expr, st map[string]lin) lin {
	e = unparen(e)
	if v, ok := x.fn.constInt(e); ok {
		return linConst(int(v))
	}
	switch y := e.(type) {
	case *ast.BinaryExpr:
		switch y.Op {
		case token.ADD:
			return x.eval(y.X, st).add(x.eval(y.Y, st))
		case token.SUB:
			return x.eval(y.X, st).sub(x.eval(y.Y, st))
		}
		return x.opaque(e, st)
	case *ast.UnaryExpr:
		if y.Op == token.SUB {
			return linConst(0).sub(x.eval(y.X, st))
		}
		if y.Op == token.ADD {
			return x.eval(y.X, st)
		}
	case *ast.CallExpr:
		// len(v): a symbol of its own; Max/Min(a, b): symbolic in the evaluated arguments
		if id, ok := unparen(y.Fun).(*ast.Ident); ok && id.Name == "len" && len(y.Args) == 1 {
			return linSym("len(" + exprStr(y.Args[0]) + ")")
		}
		if f := x.fn.Callee(y); f != nil && (f.Name() == "Max" || f.Name() == "Min") && len(y.Args) == 2 {
			a, b := x.eval(y.Args[0], st), x.eval(y.Args[1], st)
			return linSym("‹" + strings.ToLower(f.Name()) + "(" + a.String() + ", " + b.String() + ")›")
		}
		return x.opaque(e, st)
	}
	if t, ok := x.term(e); ok {
		return x.read(st, t)
	}
	return x.opaque(e, st)
}

var negOp = map[string]string{"<": ">=", "<=": ">", ">": "<=", ">=": "<", "==": "!=", "!=": "=="}

func (x *shapeExec) cond(e ast.Expr, pol bool, st map[string]lin) []condRec {
	e = unparen(e)
	switch y := e.(type) {
	case *ast.UnaryExpr:
		if y.Op == token.NOT {
			return x.cond(y.X, !pol, st)
		}
	case *ast.BinaryExpr:
		switch y.Op {
		case token.LAND:
			if pol {
				return append(x.cond(y.X, true, st), x.cond(y.Y, true, st)...)
			}
		case token.LOR:
			if !pol {
				return append(x.cond(y.X, false, st), x.cond(y.Y, false, st)...)
			}
		case token.LSS, token.LEQ, token.GTR, token.GEQ, token.EQL, token.NEQ:
			if isIntLike(x.fn.typeOf(y.X)) && isIntLike(x.fn.typeOf(y.Y)) {
				op := y.Op.String()
				if !pol {
					op = negOp[op]
				}
				d := x.eval(y.X, st).sub(x.eval(y.Y, st))
				return []condRec{{expr: e, pol: pol, diff: d, op: op, text: d.String() + " " + op + " 0"}}
			}
		}
	}
	t := exprStr(e)
	if !pol {
		t = "!(" + t + ")"
	}
	return []condRec{{expr: e, pol: pol, text: t}}
}

func isIntLike(t types.Type) bool {
	if t == nil {
		return false
	}
	b, ok := t.Underlying().(*types.Basic)
	return ok && b.Info()&types.IsInteger != 0
}

// run enumerates the paths through stmts starting from the given prefix path.
func (x *shapeExec) run(stmts []ast.Stmt, p spath) []spath {
	if len(stmts) == 0 {
		p.end = "fall"
		return []spath{p}
	}
	if x.limit++; x.limit > 4000 {
		p.end = "overflow"
		return []spath{p}
	}
	s, rest := stmts[0], stmts[1:]
	cont := func(q spath) []spath { return x.run(rest, q) }
	write := func(q *spath, t string, v lin, at ast.Node) {
		q.state[t] = v
		q.writes[t] = append(q.writes[t], at)
	}
	switch y := s.(type) {
	case *ast.BlockStmt:
		var out []spath
		for _, q := range x.run(y.List, p) {
			if q.end == "fall" {
				out = append(out, cont(q)...)
			} else {
				out = append(out, q)
			}
		}
		return out
	case *ast.IfStmt:
		if y.Init != nil {
			var out []spath
			for _, q := range x.run([]ast.Stmt{y.Init}, p) {
				if q.end != "fall" {
					out = append(out, q)
					continue
				}
				noInit := *y
				noInit.Init = nil
				out = append(out, x.run(append([]ast.Stmt{&noInit}, rest...), q)...)
			}
			return out
		}
		var out []spath
		pt := p.clone()
		pt.conds = append(pt.conds, x.cond(y.Cond, true, pt.state)...)
		for _, q := range x.run(y.Body.List, pt) {
			if q.end == "fall" {
				out = append(out, cont(q)...)
			} else {
				out = append(out, q)
			}
		}
		pf := p.clone()
		pf.conds = append(pf.conds, x.cond(y.Cond, false, pf.state)...)
		if y.Else != nil {
			for _, q := range x.run([]ast.Stmt{y.Else}, pf) {
				if q.end == "fall" {
					out = append(out, cont(q)...)
				} else {
					out = append(out, q)
				}
			}
		} else {
			out = append(out, cont(pf)...)
		}
		return out
	case *ast.ReturnStmt:
		p.end, p.ret = "return", y
		return []spath{p}
	case *ast.BranchStmt:
		switch y.Tok {
		case token.CONTINUE:
			p.end = "next"
		case token.BREAK:
			p.end = "break"
		default:
			p.end = "goto"
		}
		return []spath{p}
	case *ast.IncDecStmt:
		if t, ok := x.term(y.X); ok {
			d := 1
			if y.Tok == token.DEC {
				d = -1
			}
			write(&p, t, x.read(p.state, t).add(linConst(d)), y)
		}
		return cont(p)
	case *ast.AssignStmt:
		// calls on the right-hand side are events too (x := heap.Pop(h))
		for _, r := range y.Rhs {
			x.events(r, &p)
		}
		if len(y.Lhs) == len(y.Rhs) {
			vals := make([]lin, len(y.Rhs))
			for i, r := range y.Rhs {
				vals[i] = x.eval(r, p.state)
			}
			for i, l := range y.Lhs {
				t, ok := x.term(l)
				if !ok {
					continue
				}
				switch y.Tok {
				case token.ASSIGN, token.DEFINE:
					write(&p, t, vals[i], y)
				case token.ADD_ASSIGN:
					write(&p, t, x.read(p.state, t).add(vals[i]), y)
				case token.SUB_ASSIGN:
					write(&p, t, x.read(p.state, t).sub(vals[i]), y)
				default:
					write(&p, t, x.opaque(y.Rhs[i], p.state), y)
				}
			}
		}
		return cont(p)
	case *ast.ExprStmt:
		x.events(y.X, &p)
		return cont(p)
	case *ast.DeclStmt, *ast.EmptyStmt:
		return cont(p)
	case *ast.ForStmt, *ast.RangeStmt, *ast.SwitchStmt, *ast.TypeSwitchStmt, *ast.SelectStmt:
		// nested control flow is not entered: whatever it writes becomes unknown
		ast.Inspect(s, func(n ast.Node) bool {
			switch z := n.(type) {
			case *ast.AssignStmt:
				for _, l := range z.Lhs {
					if t, ok := x.term(l); ok {
						write(&p, t, linSym("‹"+t+" after "+x.fn.Pkg.Fset.Position(s.Pos()).String()+"›"), s)
					}
				}
			case *ast.IncDecStmt:
				if t, ok := x.term(z.X); ok {
					write(&p, t, linSym("‹"+t+" after nested loop›"), s)
				}
			}
			return true
		})
		p.events = append(p.events, eventRec{name: "nested", state: cloneState(p.state)})
		return cont(p)
	}
	// anything else: not modelled
	p.events = append(p.events, eventRec{name: "unmodelled:" + fmt.Sprintf("%T", s), state: cloneState(p.state)})
	return cont(p)
}

func (x *shapeExec) events(e ast.Expr, p *spath) {
	ast.Inspect(e, func(n ast.Node) bool {
		if _, isLit := n.(*ast.FuncLit); isLit {
			return false
		}
		if c, ok := n.(*ast.CallExpr); ok {
			name := exprStr(c.Fun)
			if f := x.fn.Callee(c); f != nil {
				name = objName(f)
			}
			p.events = append(p.events, eventRec{call: c, name: name, state: cloneState(p.state)})
		}
		return true
	})
}

func newSpath() spath {
	return spath{state: map[string]lin{}, writes: map[string][]ast.Node{}}
}

// delta of a term over a path (or at an event): current value minus the entry symbol
func deltaOf(st map[string]lin, t string) lin {
	if v, ok := st[t]; ok {
		return v.sub(linSym(t))
	}
	return linConst(0)
}

func condTexts(cs []condRec) string {
	var out []string
	for _, c := range cs {
		out = append(out, c.text)
	}
	return strings.Join(out, " && ")
}
