package main

// C27: service discovery subscribers converge to the registered set; unsubscribing always completes.

import (
	"fmt"
	"go/ast"
	"go/token"
	"go/types"
	"strings"
)

func init() { register("C27", checkC27) }

func checkC27(p *Prog, r *Result, tier string) {
	r.Technique = "go/cfg dominance and AST shape rules on both ServiceStatusStream implementations (watch-before-get, event classification, full-set publication) and on the helium dispatcher (escape rule for the unsubscribe rendezvous, close/cancel pairing, unconditional dispatch)"
	r.Explanation = "WG in both backends the watch is established before the current registrations are read (the call that opens the watch dominates the read), so no registration change between the two is lost; EV put-type events add the endpoint and delete-type events remove it; SND the full endpoint set is published after the initial read and after every change, by a send that cannot be abandoned (blocking, or in a select whose other cases all end the producer); CHG the flag that triggers a publication is only raised (never overwritten) inside a per-event loop, so one changing event in a batch suffices; " +
		"U1 Unsubscribe's rendezvous with the dispatch loop has an escape: the send on the unsubscribe channel sits in a select whose other case receives from a channel that is closed when the loop goroutine exits (first-statement defer) and on every path of start() that returns without starting it, and the escape case releases the subscriber itself; " +
		"U2 releasing a subscriber cancels its context, deletes its entry and closes its channel, under a mutex; D1 the loop dispatches the latest status after every event, unsubscribe and tick (dispatch is the unconditional last statement of the loop body) and the latest status is built from the received addresses; D2 delivery to one subscriber has an escape on that same subscriber's own context (not on the loop's), and that context is a child of the context the subscriber passed to Subscribe."
	r.NotCovered = "convergence within one push interval when a live subscriber does not read (delivery is sequential); the store's watch semantics"
	r.Assumptions = []string{"A3", "A4 etcd watch / redis keyspace notifications deliver every change after the watch is established"}
	r.min("WG", 2)
	r.min("EV", 2)
	r.min("SND", 4)
	r.min("CHG", 1)
	r.min("U1", 3)
	r.min("U2", 1)
	r.min("D1", 2)
	r.min("D2", 2)

	// ---- stores
	for _, be := range []struct{ name, watch, get string }{
		{"store/etcdv3.(*Mercury).ServiceStatusStream", "Watch", "Get"},
		{"store/redis.(*Rediaron).ServiceStatusStream", "KNotify", "getByKeyPattern"},
	} {
		S := p.Fn(be.name)
		if S == nil {
			r.undecided("WG", be.name, "", "not found")
			continue
		}
		var prod *FuncNode
		for _, l := range S.Lits {
			if len(l.calls(func(f *types.Func) bool { return f.Name() == be.watch })) > 0 {
				prod = l
			}
		}
		if prod == nil {
			r.undecided("WG", be.name+" / producer", p.pos(S.Decl), "no closure opening the watch")
			continue
		}
		w := prod.calls(func(f *types.Func) bool { return f.Name() == be.watch })
		g := prod.calls(func(f *types.Func) bool { return f.Name() == be.get })
		why := ""
		if len(w) != 1 || len(g) != 1 {
			why = fmt.Sprintf("%d watch and %d read calls (want 1 and 1)", len(w), len(g))
		} else if !prod.dominates(prod.find(w[0]), prod.find(g[0])) || prod.find(w[0]) == prod.find(g[0]) {
			why = "the current registrations are read before the watch is established: a registration or deregistration in between is never seen, and subscribers keep a stale set"
		}
		r.check2(why, "WG", be.name+" / watch is established before the initial read", p.pos(prod.Lit), be.watch+" dominates "+be.get)

		// EV: switch with Add / Remove
		why = "no switch classifying events into Add / Remove"
		// in the producer or in a helper of the package it hands the events to
		for _, pf := range p.withLocalCallees(prod, 2) {
			pf := pf
			pf.inspectBody(func(n ast.Node) bool {
				sw, ok := n.(*ast.SwitchStmt)
				if !ok {
					return true
				}
				addOK, remOK := false, false
				for _, cc := range sw.Body.List {
					cl := cc.(*ast.CaseClause)
					var names []string
					for _, e := range cl.List {
						if o := pf.objOf(e); o != nil {
							names = append(names, o.Name())
						}
					}
					joined := strings.Join(names, ",")
					calls := ""
					for _, st := range cl.Body {
						ast.Inspect(st, func(x ast.Node) bool {
							if c, ok := x.(*ast.CallExpr); ok {
								if sel, ok := unparen(c.Fun).(*ast.SelectorExpr); ok {
									calls += sel.Sel.Name + " "
								}
							}
							return true
						})
					}
					isPut := strings.Contains(joined, "PUT") || strings.Contains(joined, "actionSet")
					isDel := strings.Contains(joined, "DELETE") || strings.Contains(joined, "actionDel") || strings.Contains(joined, "actionExpired")
					if isPut && strings.Contains(calls, "Add") && !strings.Contains(calls, "Remove") && !isDel {
						addOK = true
					}
					if isDel && strings.Contains(calls, "Remove") && !strings.Contains(calls, "Add") && !isPut {
						remOK = true
					}
				}
				if addOK && remOK {
					why = ""
				} else {
					why = fmt.Sprintf("put-type events add: %v, delete-type events remove: %v", addOK, remOK)
				}
				return true
			})
		}
		r.check2(why, "EV", be.name+" / registrations add, deregistrations and expiries remove", p.pos(prod.Lit), "PUT/set→Add, DELETE/del/expired→Remove")

		// SND: two sends of <set>.ToSlice(): one dominated by the read and dominating the watch loop, one under `if changed`
		var sends []*ast.SendStmt
		prod.inspectBody(func(n ast.Node) bool {
			if s, ok := n.(*ast.SendStmt); ok {
				sends = append(sends, s)
			}
			return true
		})
		initial, onChange := false, false
		for _, s := range sends {
			c, ok := unparen(s.Value).(*ast.CallExpr)
			if !ok {
				continue
			}
			if sel, ok := unparen(c.Fun).(*ast.SelectorExpr); !ok || sel.Sel.Name != "ToSlice" {
				continue
			}
			inLoop := false
			prod.inspectBody(func(x ast.Node) bool {
				if rg, ok := x.(*ast.RangeStmt); ok && rg.Body.Pos() <= s.Pos() && s.End() <= rg.Body.End() {
					if _, isChan := prod.typeOf(rg.X).Underlying().(*types.Chan); isChan {
						inLoop = true
					}
				}
				return true
			})
			if !inLoop && len(g) == 1 && prod.dominates(prod.find(g[0]), prod.find(s)) {
				initial = true
			}
			if inLoop {
				onChange = true
			}
		}
		// CHG: a change flag declared outside a per-event loop and written inside it must be sticky
		{
			whyC := ""
			nflag := 0
			prod.inspectBody(func(n ast.Node) bool {
				as, ok := n.(*ast.AssignStmt)
				if !ok || as.Tok != token.DEFINE || len(as.Lhs) != 1 || len(as.Rhs) != 1 || constBoolName(prod, as.Rhs[0]) != "false" {
					return true
				}
				flag := prod.objOf(as.Lhs[0])
				// is the flag what guards a publication?
				guards := false
				prod.inspectBody(func(x ast.Node) bool {
					if is, ok := x.(*ast.IfStmt); ok && prod.objOf(is.Cond) == flag {
						guards = true
					}
					return true
				})
				if !guards {
					return true
				}
				nflag++
				prod.inspectBody(func(x ast.Node) bool {
					w, ok := x.(*ast.AssignStmt)
					if !ok || w == as || len(w.Lhs) != 1 || prod.objOf(w.Lhs[0]) != flag {
						return true
					}
					// nested in a loop that starts after the declaration?
					inInner := false
					prod.inspectBody(func(y ast.Node) bool {
						var b *ast.BlockStmt
						switch l := y.(type) {
						case *ast.RangeStmt:
							b = l.Body
						case *ast.ForStmt:
							b = l.Body
						}
						if b != nil && b.Pos() > as.Pos() && b.Pos() <= w.Pos() && w.End() <= b.End() {
							inInner = true
						}
						return true
					})
					if !inInner {
						return true
					}
					sticky := constBoolName(prod, w.Rhs[0]) == "true"
					if be, ok := unparen(w.Rhs[0]).(*ast.BinaryExpr); ok && be.Op == token.LOR && (prod.objOf(be.X) == flag || prod.objOf(be.Y) == flag) {
						sticky = true
					}
					if !sticky {
						whyC = "the change flag is overwritten by each event of a response (`" + exprStr(w.Lhs[0]) + " = " + exprStr(w.Rhs[0]) + "` at " + p.pos(w) + "): when the last event of a batch changes nothing, an earlier real change is not published and subscribers keep a stale set"
					}
					return true
				})
				return true
			})
			if nflag > 0 {
				r.check2(whyC, "CHG", be.name+" / a change seen in any event of a batch is published", p.pos(prod.Lit), "the flag is only ever raised inside the per-event loop")
			}
		}
		r.check(initial && onChange, "SND", be.name+" / the full set is published initially and after every change", p.pos(prod.Lit), "ch <- eps.ToSlice() after the read and inside the watch loop",
			fmt.Sprintf("initial publication: %v; publication on change: %v", initial, onChange))
		// SND (no drop): a publication is a blocking send; if it sits in a select, every other case ends the producer —
		// a case that falls through (a timeout) drops the update, and nothing re-sends it until the set changes again
		{
			why := ""
			nsend := 0
			ast.Inspect(prod.Body, func(x ast.Node) bool {
				sel, ok := x.(*ast.SelectStmt)
				if !ok {
					if ss, ok := x.(*ast.SendStmt); ok && strings.Contains(exprStr(ss.Value), "ToSlice") {
						nsend++
					}
					return true
				}
				isPub := false
				for _, cl := range sel.Body.List {
					cc := cl.(*ast.CommClause)
					if ss, ok := cc.Comm.(*ast.SendStmt); ok && strings.Contains(exprStr(ss.Value), "ToSlice") {
						isPub = true
					}
				}
				if !isPub {
					return true
				}
				for _, cl := range sel.Body.List {
					cc := cl.(*ast.CommClause)
					if ss, ok := cc.Comm.(*ast.SendStmt); ok && strings.Contains(exprStr(ss.Value), "ToSlice") {
						continue
					}
					ends := false
					if n := len(cc.Body); n > 0 {
						if _, isRet := cc.Body[n-1].(*ast.ReturnStmt); isRet {
							ends = true
						}
					}
					if !ends {
						what := "default"
						if cc.Comm != nil {
							what = prod.Pkg.Fset.Position(cc.Comm.Pos()).String()
							if es, ok := cc.Comm.(*ast.ExprStmt); ok {
								what = exprStr(es.X)
							}
						}
						why = "the publication at " + p.pos(sel) + " can be abandoned through the case `" + what + "`, after which the producer carries on: the update is dropped and subscribers keep a stale set until the registrations change again"
					}
				}
				return true
			})
			if nsend == 0 {
				why = "no publication found"
			}
			r.check2(why, "SND", be.name+" / a publication is never dropped", p.pos(prod.Lit), fmt.Sprintf("%d publication send(s): blocking, or in a select whose other cases end the producer", nsend))
		}
	}

	// ---- helium
	const hp = "discovery/helium"
	U := p.Fn(hp + ".(*Helium).Unsubscribe")
	ST := p.Fn(hp + ".(*Helium).start")
	DP := p.Fn(hp + ".(*Helium).dispatch")
	if U == nil || ST == nil || DP == nil {
		r.undecided("U1", hp+" Unsubscribe/start/dispatch", "", "not found")
		return
	}
	rvU := recvObj(U)
	fieldSel := func(fn *FuncNode, e ast.Expr, rv types.Object) string {
		if sel, ok := unparen(e).(*ast.SelectorExpr); ok && fn.objOf(sel.X) == rv {
			return sel.Sel.Name
		}
		return ""
	}
	// U1a: send in select with escape
	var unsubField, stopField string
	var escapeBody []ast.Stmt
	why := "the send on the unsubscribe channel is not inside a select with an escape case: once the dispatch loop has exited (watch closed, start failed) Unsubscribe blocks forever"
	var at ast.Node = U.Decl
	U.inspectBody(func(n ast.Node) bool {
		sel, ok := n.(*ast.SelectStmt)
		if !ok {
			return true
		}
		for _, cc := range sel.Body.List {
			cl := cc.(*ast.CommClause)
			switch c := cl.Comm.(type) {
			case *ast.SendStmt:
				unsubField = fieldSel(U, c.Chan, rvU)
			case *ast.ExprStmt:
				if u, ok := unparen(c.X).(*ast.UnaryExpr); ok && u.Op == token.ARROW {
					stopField = fieldSel(U, u.X, rvU)
					escapeBody = cl.Body
				}
			}
		}
		if unsubField != "" && stopField != "" {
			why, at = "", sel
		}
		return true
	})
	if unsubField == "" {
		// bare send?
		U.inspectBody(func(n ast.Node) bool {
			if s, ok := n.(*ast.SendStmt); ok {
				unsubField = fieldSel(U, s.Chan, rvU)
				at = s
			}
			return true
		})
	}
	r.check2(why, "U1", U.Name+" / the rendezvous with the dispatch loop has an escape", p.pos(at), "select { case h."+unsubField+" <- id: case <-h."+stopField+": release here }")
	// U1b: stop channel closed by first-statement defer of the loop goroutine and on early returns of start
	rvS := recvObj(ST)
	var loop *FuncNode
	for _, l := range ST.Lits {
		isGo := false
		ST.inspectBody(func(x ast.Node) bool {
			if g, ok := x.(*ast.GoStmt); ok && unparen(g.Call.Fun) == ast.Expr(l.Lit) {
				isGo = true
			}
			return true
		})
		if isGo {
			loop = l
		}
	}
	isCloseOf := func(fn *FuncNode, c *ast.CallExpr, rv types.Object, field string) bool {
		id, ok := c.Fun.(*ast.Ident)
		return ok && id.Name == "close" && len(c.Args) == 1 && fieldSel(fn, c.Args[0], rv) == field
	}
	why = ""
	if stopField == "" {
		why = "no escape channel"
	} else if loop == nil {
		why = "dispatch loop goroutine not found"
	} else {
		first := false
		if len(loop.Body.List) > 0 {
			if ds, ok := loop.Body.List[0].(*ast.DeferStmt); ok && isCloseOf(loop, ds.Call, rvS, stopField) {
				first = true
			}
		}
		if !first {
			why = "the loop goroutine does not close h." + stopField + " in a first-statement defer: after it exits Unsubscribe still waits for it"
		}
	}
	r.check2(why, "U1", ST.Name+" / the escape channel is closed when the dispatch loop exits", p.pos(ST.Decl), "defer close(h."+stopField+") first in the loop goroutine")
	why = ""
	if loop != nil && stopField != "" {
		ST.inspectBody(func(n ast.Node) bool {
			rt, ok := n.(*ast.ReturnStmt)
			if !ok || rt.Pos() > loop.Lit.Pos() {
				return true
			}
			// the statement before the return in its block closes the channel
			closed := false
			ST.inspectBody(func(x ast.Node) bool {
				if bl, ok := x.(*ast.BlockStmt); ok {
					for i, st := range bl.List {
						if st == ast.Stmt(rt) {
							for _, prev := range bl.List[:i] {
								if es, ok := prev.(*ast.ExprStmt); ok {
									if c, ok := es.X.(*ast.CallExpr); ok && isCloseOf(ST, c, rvS, stopField) {
										closed = true
									}
								}
							}
						}
					}
				}
				return true
			})
			if !closed {
				why = "start() returns at " + p.pos(rt) + " without starting the loop and without closing h." + stopField + ": every later Unsubscribe blocks forever"
			}
			return true
		})
	}
	r.check2(why, "U1", ST.Name+" / a failed start also opens the escape", p.pos(ST.Decl), "close(h."+stopField+") before every early return")
	// U2: release function
	var rel *FuncNode
	for _, st := range escapeBody {
		ast.Inspect(st, func(x ast.Node) bool {
			if c, ok := x.(*ast.CallExpr); ok {
				if f := U.Callee(c); f != nil && p.ByObj[f] != nil {
					rel = p.ByObj[f]
				}
			}
			return true
		})
	}
	if rel == nil && loop != nil {
		rel = loop // the pre-escape shape: release inline in the loop
	}
	why = "no release of the subscriber found"
	if rel != nil {
		cancelled, deleted, closed, locked := false, false, false, false
		ast.Inspect(rel.Body, func(x ast.Node) bool {
			c, ok := x.(*ast.CallExpr)
			if !ok {
				return true
			}
			if id, ok := c.Fun.(*ast.Ident); ok && id.Name == "close" && len(c.Args) == 1 {
				if sel, ok := unparen(c.Args[0]).(*ast.SelectorExpr); ok && sel.Sel.Name == "ch" {
					closed = true
				}
			}
			if sel, ok := unparen(c.Fun).(*ast.SelectorExpr); ok {
				switch sel.Sel.Name {
				case "cancel":
					cancelled = true
				case "Del":
					deleted = true
				case "Lock":
					locked = true
				}
			}
			return true
		})
		switch {
		case !closed:
			why = "the subscriber's channel is not closed on unsubscribe"
		case !cancelled:
			why = "the subscriber's context is not cancelled on unsubscribe: a dispatch blocked on it never gives up"
		case !deleted:
			why = "the entry is not deleted: the next dispatch sends on a closed channel"
		case rel != loop && !locked:
			why = "the release can run in the caller's goroutine but takes no mutex: two releases of one subscriber close its channel twice"
		default:
			why = ""
		}
		// the loop's unsubscribe case uses the same release
		if why == "" && rel != loop && loop != nil {
			if len(loop.callsDeep(func(f *types.Func) bool { return f == rel.Obj })) == 0 {
				why = "the dispatch loop does not use the same release function as the escape path"
			}
		}
	}
	r.check2(why, "U2", hp+" / releasing a subscriber cancels it, forgets it and closes its channel", p.pos(U.Decl), "cancel(); Del(id); close(ch) under a mutex")

	// ---- D1: dispatch unconditional last statement of the loop; latest status from received addresses
	if loop != nil {
		why = "no for/select loop"
		var lat types.Object
		ast.Inspect(loop.Body, func(n ast.Node) bool {
			fs, ok := n.(*ast.ForStmt)
			if !ok || fs.Cond != nil || len(fs.Body.List) < 2 {
				return true
			}
			last, ok := fs.Body.List[len(fs.Body.List)-1].(*ast.ExprStmt)
			if !ok {
				why = "the loop body does not end with the dispatch call"
				return false
			}
			c, ok := unparen(last.X).(*ast.CallExpr)
			if !ok || loop.Callee(c) != DP.Obj || len(c.Args) != 2 {
				why = "the loop body does not end with the dispatch call"
				return false
			}
			lat = loop.objOf(c.Args[1])
			why = ""
			// no continue in the select cases
			ast.Inspect(fs.Body, func(x ast.Node) bool {
				if b, ok := x.(*ast.BranchStmt); ok && b.Tok == token.CONTINUE {
					why = "a case skips the dispatch with continue (" + p.pos(b) + "): subscribers do not get the latest set after that event"
				}
				return true
			})
			return false
		})
		r.check2(why, "D1", ST.Name+" / the latest set is dispatched after every event, unsubscribe and tick", p.pos(loop.Lit), "dispatch(ctx, latestStatus) is the unconditional last statement of the loop")
		why = "the dispatched status is not built from the addresses received from the stream"
		if lat != nil {
			ast.Inspect(loop.Body, func(n ast.Node) bool {
				cc, ok := n.(*ast.CommClause)
				if !ok || cc.Comm == nil {
					return true
				}
				as, ok := cc.Comm.(*ast.AssignStmt)
				if !ok || len(as.Rhs) != 1 {
					return true
				}
				if u, ok := unparen(as.Rhs[0]).(*ast.UnaryExpr); !ok || u.Op != token.ARROW {
					return true
				}
				recv := loop.objOf(as.Lhs[0])
				for _, st := range cc.Body {
					if a2, ok := st.(*ast.AssignStmt); ok && len(a2.Lhs) == 1 && loop.objOf(a2.Lhs[0]) == lat {
						if lit, ok := unparen(a2.Rhs[0]).(*ast.CompositeLit); ok {
							for _, el := range lit.Elts {
								if kv, ok := el.(*ast.KeyValueExpr); ok && exprStr(kv.Key) == "Addresses" && loop.objOf(kv.Value) == recv {
									why = ""
								}
							}
						}
					}
				}
				return true
			})
		}
		r.check2(why, "D1", ST.Name+" / the dispatched status carries the addresses just received", p.pos(loop.Lit), "latestStatus = ServiceStatus{Addresses: addresses, …}")
	} else {
		r.undecided("D1", ST.Name+" / loop", p.pos(ST.Decl), "no loop goroutine")
	}
	// ---- D2: per-subscriber delivery has an escape on the subscriber's context
	why = "delivery to a subscriber is a bare send (no select with the subscriber's context): one dead subscriber blocks all others"
	for _, dpf := range p.withLocalCallees(DP, 2) {
		ast.Inspect(dpf.Body, func(n ast.Node) bool {
			sel, ok := n.(*ast.SelectStmt)
			if !ok {
				return true
			}
			send, esc := false, false
			var sendBase types.Object
			wrongCtx := ""
			// the send case comes first in source; make sure it is seen before the escape
			for _, cc := range sel.Body.List {
				if ss, ok := cc.(*ast.CommClause).Comm.(*ast.SendStmt); ok {
					if cs, ok := unparen(ss.Chan).(*ast.SelectorExpr); ok {
						if enc := p.enclosing(DP.Pkg, cs.Pos()); enc != nil {
							sendBase = enc.objOf(cs.X)
						}
					}
				}
			}
			for _, cc := range sel.Body.List {
				cl := cc.(*ast.CommClause)
				switch c := cl.Comm.(type) {
				case *ast.SendStmt:
					send = true
					if cs, ok := unparen(c.Chan).(*ast.SelectorExpr); ok {
						if enc := p.enclosing(DP.Pkg, cs.Pos()); enc != nil {
							sendBase = enc.objOf(cs.X)
						}
					}
				case *ast.ExprStmt:
					if u, ok := unparen(c.X).(*ast.UnaryExpr); ok && u.Op == token.ARROW {
						if call, ok := unparen(u.X).(*ast.CallExpr); ok {
							if s2, ok := unparen(call.Fun).(*ast.SelectorExpr); ok && s2.Sel.Name == "Done" {
								// the context must be the subscriber entry's own (a field of the same value the send goes to)
								if fsel, ok := unparen(s2.X).(*ast.SelectorExpr); ok && sendBase != nil {
									enc := p.enclosing(DP.Pkg, fsel.Pos())
									if enc != nil && enc.objOf(fsel.X) == sendBase {
										esc = true
									}
								}
								if !esc {
									wrongCtx = exprStr(s2.X)
								}
							}
						}
					}
				}
			}
			if send && esc {
				why = ""
			} else if send && wrongCtx != "" {
				why = "the escape of a delivery waits on `" + wrongCtx + ".Done()`, not on the subscriber's own context: a subscriber that left while a delivery was in flight blocks the loop, which then serves neither the other subscribers nor Unsubscribe"
			}
			return true
		})
	}
	r.check2(why, "D2", DP.Name+" / delivery gives up when the subscriber's context ends", p.pos(DP.Decl), "select { case val.ch <- status: case <-val.ctx.Done(): }")
	// D2 (origin): the subscriber's context is a child of the context the subscriber handed to Subscribe — that is the
	// only thing that ends when the client goes away without unsubscribing; a detached context never fires the escape
	if SB := p.Fn(hp + ".(*Helium).Subscribe"); SB == nil {
		r.undecided("D2", hp+".(*Helium).Subscribe", "", "not found")
	} else {
		whyS := "no context.WithCancel(<caller's ctx>) found in Subscribe"
		param := SB.paramObj(0)
		SB.inspectBody(func(n ast.Node) bool {
			c, ok := n.(*ast.CallExpr)
			if !ok || SB.Callee(c) == nil || SB.Callee(c).Pkg() == nil || SB.Callee(c).Pkg().Path() != "context" || !strings.HasPrefix(SB.Callee(c).Name(), "With") || len(c.Args) < 1 {
				return true
			}
			if id, ok := unparen(c.Args[0]).(*ast.Ident); ok && SB.objOf(id) == param {
				whyS = ""
			} else {
				whyS = "the subscriber's context is derived from `" + exprStr(c.Args[0]) + "`, not from the context the subscriber passed in: when the client goes away without unsubscribing, nothing ends it, the dispatch loop blocks on that subscriber and every other subscriber (and Unsubscribe) stalls"
			}
			return true
		})
		r.check2(whyS, "D2", SB.Name+" / a subscriber's context ends with the context it subscribed with", p.pos(SB.Decl), "subCtx, cancel := context.WithCancel(ctx)")
	}
}
